#!/usr/bin/env python3-vt
"""Independent draft-07 oracle (python jsonschema). JSONL in -> JSONL out.

request : {"schema": <document with definitions>, "ref": "#/definitions/X" | null,
           "instances": [ ... ]}
response: {"valid": [true, false, ...]}            or {"error": "..."}
The script never sees typify's output. Recognised integer formats are asserted
as exact ranges (property C02); every other format is an annotation.
"""
import sys, json
from jsonschema import Draft7Validator, FormatChecker

INT_RANGES = {
    "int8": (-2**7, 2**7 - 1), "uint8": (0, 2**8 - 1),
    "int16": (-2**15, 2**15 - 1), "uint16": (0, 2**16 - 1),
    "int32": (-2**31, 2**31 - 1), "uint32": (0, 2**32 - 1),
    "int64": (-2**63, 2**63 - 1), "uint64": (0, 2**64 - 1),
    # 'int' / 'uint' have no registered width; typify reads them as 32 bit.
    # Instances generated under these formats stay inside the 32-bit range, so
    # either reading gives the same verdict (DESIGN.md B.1).
    "int": (-2**31, 2**31 - 1), "uint": (0, 2**32 - 1),
}

checker = FormatChecker(formats=())


def _mk(lo, hi):
    def f(v):
        if isinstance(v, bool) or not isinstance(v, (int, float)):
            return True
        if isinstance(v, float):
            if v != v or v in (float("inf"), float("-inf")):
                return True
            if not v.is_integer():
                return True
            v = int(v)
        return lo <= v <= hi
    return f


for name, (lo, hi) in INT_RANGES.items():
    checker.checks(name)(_mk(lo, hi))


# Recognised string formats are asserted in their *canonical* spellings only
# (lower-case hyphenated UUID, YYYY-MM-DD, RFC 3339 date-time with Z/offset,
# dotted quad, RFC 5952-style IPv6). This makes the oracle stricter than
# draft-07 requires, which can only remove obligations from "valid => accepted"
# checks; no check concludes anything from a format-invalid string.
import re, datetime, ipaddress

_UUID = re.compile(r"^[0-9a-f]{8}-[0-9a-f]{4}-[0-9a-f]{4}-[0-9a-f]{4}-[0-9a-f]{12}$")
_DT = re.compile(r"^(\d{4})-(\d\d)-(\d\d)T(\d\d):(\d\d):(\d\d)(\.\d{1,9})?(Z|[+-]\d\d:\d\d)$")


def _str_only(f):
    def g(v):
        if not isinstance(v, str):
            return True
        try:
            return bool(f(v))
        except Exception:
            return False
    return g


def _date(v):
    if not re.match(r"^\d{4}-\d\d-\d\d$", v):
        return False
    datetime.date.fromisoformat(v)
    return True


def _datetime(v):
    m = _DT.match(v)
    if not m:
        return False
    datetime.date(int(m.group(1)), int(m.group(2)), int(m.group(3)))
    if int(m.group(4)) > 23 or int(m.group(5)) > 59 or int(m.group(6)) > 59:
        return False
    off = m.group(8)
    if off != "Z" and (int(off[1:3]) > 23 or int(off[4:6]) > 59):
        return False
    return True


def _ipv4(v):
    if not re.match(r"^[0-9.]+$", v):
        return False
    return str(ipaddress.IPv4Address(v)) == v


def _ipv6(v):
    if not re.match(r"^[0-9a-f:.]+$", v):
        return False
    return str(ipaddress.IPv6Address(v)) == v


checker.checks("uuid")(_str_only(lambda v: _UUID.match(v)))
checker.checks("date")(_str_only(_date))
checker.checks("date-time")(_str_only(_datetime))
checker.checks("ipv4")(_str_only(_ipv4))
checker.checks("ipv6")(_str_only(_ipv6))
checker.checks("ip")(_str_only(lambda v: _ipv4(v) if ":" not in v else _ipv6(v)))


def validator(schema, ref):
    if ref:
        s = dict(schema)
        s.pop("$ref", None)
        # wrap: validate against the referenced definition of this document
        doc = {k: v for k, v in schema.items() if k in ("definitions", "$defs")}
        doc["$ref"] = ref
        if ref == "#":
            doc = schema
        return Draft7Validator(doc, format_checker=checker)
    return Draft7Validator(schema, format_checker=checker)


def selftest():
    T = [
        ({"type": "integer", "format": "uint8"}, 255, True),
        ({"type": "integer", "format": "uint8"}, 256, False),
        ({"type": "integer", "format": "int8"}, -129, False),
        ({"type": "string", "format": "uuid"}, "nope", False),
        ({"type": "string", "format": "uuid"}, "123e4567-e89b-12d3-a456-426614174000", True),
        ({"type": "string", "format": "ip"}, ":", False),
        ({"type": "string", "format": "ip"}, "::1", True),
        ({"type": "string", "format": "ipv4"}, "10.0.0.255", True),
        ({"type": "string", "format": "ipv4"}, "10.0.0.256", False),
        ({"type": "string", "format": "date"}, "2020-02-30", False),
        ({"type": "string", "format": "date-time"}, "2020-02-29T12:34:56Z", True),
        ({"type": "string", "format": "made-up"}, "anything", True),
        ({"type": "string", "minLength": 2}, "éé", True),
        ({"type": "string", "maxLength": 1}, "\U0001F600", True),
        ({"type": "object", "required": ["a"]}, {}, False),
        ({"type": "object", "additionalProperties": False, "properties": {"a": {}}}, {"b": 1}, False),
        ({"oneOf": [{"type": "integer"}, {"type": "number"}]}, 1, False),
        ({"type": "array", "items": [{"type": "integer"}], "additionalItems": False}, [1, 2], False),
        ({"definitions": {"A": {"type": "string"}}, "$ref": "#/definitions/A"}, 3, False),
        ({"type": "string", "pattern": "^a+$"}, "aaa", True),
        ({"type": "string", "pattern": "b"}, "abc", True),
        ({"enum": [1, "a", None]}, None, True),
        ({"not": {"enum": ["x"]}}, "x", False),
        ({"type": "integer"}, True, False),
    ]
    for s, v, want in T:
        got = Draft7Validator(s, format_checker=checker).is_valid(v)
        if got != want:
            sys.stderr.write("oracle self-test failed: %r %r want %r\n" % (s, v, want))
            sys.exit(3)
    # ref addressing
    doc = {"definitions": {"A": {"type": "integer"}}}
    if not validator(doc, "#/definitions/A").is_valid(1) or validator(doc, "#/definitions/A").is_valid("x"):
        sys.stderr.write("oracle self-test failed: ref\n")
        sys.exit(3)


def main():
    selftest()
    out = sys.stdout
    out.write(json.dumps({"ready": True}) + "\n")
    out.flush()
    for line in sys.stdin:
        line = line.strip()
        if not line:
            continue
        try:
            req = json.loads(line)
            v = validator(req["schema"], req.get("ref"))
            res = []
            for inst in req["instances"]:
                try:
                    res.append(bool(v.is_valid(inst)))
                except Exception as e:  # unresolvable ref, bad regex, ...
                    res.append(None)
            out.write(json.dumps({"valid": res}) + "\n")
        except Exception as e:
            out.write(json.dumps({"error": "%s: %s" % (type(e).__name__, e)}) + "\n")
        out.flush()


if __name__ == "__main__":
    main()
