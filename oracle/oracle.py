#!/usr/bin/env python3-vt
"""Independent draft-07 oracle (python jsonschema). JSONL in -> JSONL out.

request : {"schema": <document with definitions>, "ref": "#/definitions/X" | null,
           "instances": [ ... ]}
response: {"valid": [true, false, ...]}            or {"error": "..."}
The script never sees typify's output. Recognised integer formats are asserted
as exact ranges (property C02); every other format is an annotation.
"""
import sys, json
from jsonschema import Draft7Validator, FormatChecker

INT_RANGES = {
    "int8": (-2**7, 2**7 - 1), "uint8": (0, 2**8 - 1),
    "int16": (-2**15, 2**15 - 1), "uint16": (0, 2**16 - 1),
    "int32": (-2**31, 2**31 - 1), "uint32": (0, 2**32 - 1),
    "int64": (-2**63, 2**63 - 1), "uint64": (0, 2**64 - 1),
    # 'int' / 'uint' have no registered width; typify reads them as 32 bit.
    # Instances generated under these formats stay inside the 32-bit range, so
    # either reading gives the same verdict (DESIGN.md B.1).
    "int": (-2**31, 2**31 - 1), "uint": (0, 2**32 - 1),
}

checker = FormatChecker(formats=())


def _mk(lo, hi):
    def f(v):
        if isinstance(v, bool) or not isinstance(v, (int, float)):
            return True
        if isinstance(v, float):
            if v != v or v in (float("inf"), float("-inf")):
                return True
            if not v.is_integer():
                return True
            v = int(v)
        return lo <= v <= hi
    return f


for name, (lo, hi) in INT_RANGES.items():
    checker.checks(name)(_mk(lo, hi))


def validator(schema, ref):
    if ref:
        s = dict(schema)
        s.pop("$ref", None)
        # wrap: validate against the referenced definition of this document
        doc = {k: v for k, v in schema.items() if k in ("definitions", "$defs")}
        doc["$ref"] = ref
        if ref == "#":
            doc = schema
        return Draft7Validator(doc, format_checker=checker)
    return Draft7Validator(schema, format_checker=checker)


def selftest():
    T = [
        ({"type": "integer", "format": "uint8"}, 255, True),
        ({"type": "integer", "format": "uint8"}, 256, False),
        ({"type": "integer", "format": "int8"}, -129, False),
        ({"type": "string", "format": "uuid"}, "nope", True),
        ({"type": "string", "minLength": 2}, "éé", True),
        ({"type": "string", "maxLength": 1}, "\U0001F600", True),
        ({"type": "object", "required": ["a"]}, {}, False),
        ({"type": "object", "additionalProperties": False, "properties": {"a": {}}}, {"b": 1}, False),
        ({"oneOf": [{"type": "integer"}, {"type": "number"}]}, 1, False),
        ({"type": "array", "items": [{"type": "integer"}], "additionalItems": False}, [1, 2], False),
        ({"definitions": {"A": {"type": "string"}}, "$ref": "#/definitions/A"}, 3, False),
        ({"type": "string", "pattern": "^a+$"}, "aaa", True),
        ({"type": "string", "pattern": "b"}, "abc", True),
        ({"enum": [1, "a", None]}, None, True),
        ({"not": {"enum": ["x"]}}, "x", False),
        ({"type": "integer"}, True, False),
    ]
    for s, v, want in T:
        got = Draft7Validator(s, format_checker=checker).is_valid(v)
        if got != want:
            sys.stderr.write("oracle self-test failed: %r %r want %r\n" % (s, v, want))
            sys.exit(3)
    # ref addressing
    doc = {"definitions": {"A": {"type": "integer"}}}
    if not validator(doc, "#/definitions/A").is_valid(1) or validator(doc, "#/definitions/A").is_valid("x"):
        sys.stderr.write("oracle self-test failed: ref\n")
        sys.exit(3)


def main():
    selftest()
    out = sys.stdout
    out.write(json.dumps({"ready": True}) + "\n")
    out.flush()
    for line in sys.stdin:
        line = line.strip()
        if not line:
            continue
        try:
            req = json.loads(line)
            v = validator(req["schema"], req.get("ref"))
            res = []
            for inst in req["instances"]:
                try:
                    res.append(bool(v.is_valid(inst)))
                except Exception as e:  # unresolvable ref, bad regex, ...
                    res.append(None)
            out.write(json.dumps({"valid": res}) + "\n")
        except Exception as e:
            out.write(json.dumps({"error": "%s: %s" % (type(e).__name__, e)}) + "\n")
        out.flush()


if __name__ == "__main__":
    main()
