#!/usr/bin/env bash
# setup_cmd: build everything the checks need from files on disk only (offline).
#  1. a cargo *directory source* holding every cached crate of both registry
#     cache directories (see DESIGN.md §2) -> work/vendor
#  2. the harness binary `vrf` (stable toolchain, vendored deps)
#  3. warm the dependency build of the generated-code workspace (rustc 1.80.1)
set -euo pipefail
cd "$(dirname "$0")"
export CARGO_NET_OFFLINE=true
V=work/vendor
mkdir -p work
if [ ! -f "$V/.complete" ]; then
  rm -rf "$V"; mkdir -p "$V"
  python3 - "$V" <<'PY'
import sys, os, glob, hashlib, tarfile, json
dst = sys.argv[1]
crates = sorted(glob.glob(os.path.expanduser('~/.cargo/registry/cache/*/*.crate')))
seen = set()
for c in crates:
    name = os.path.basename(c)[:-len('.crate')]
    if name in seen:
        continue
    seen.add(name)
    h = hashlib.sha256(open(c, 'rb').read()).hexdigest()
    with tarfile.open(c, 'r:gz') as t:
        t.extractall(dst)
    with open(os.path.join(dst, name, '.cargo-checksum.json'), 'w') as f:
        json.dump({'package': h, 'files': {}}, f)
print('vendored', len(seen), 'crates')
PY
  touch "$V/.complete"
fi
./check --build
echo "setup complete"
