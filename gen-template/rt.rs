// Generic probe helpers shared by every generated-code shard (DESIGN.md §3.1
// stage 4). Only the public, documented surface of generated types is used:
// serde, std conversion traits.
#![allow(dead_code)]
use serde::de::DeserializeOwned;
use serde::Serialize;
use serde_json::Value;
use std::fmt::{Debug, Display};
use std::str::FromStr;

pub type R = Result<String, String>;

fn ser<T: Serialize>(t: &T) -> R {
    serde_json::to_string(t).map_err(|e| format!("SERIALIZE-FAILED: {}", e))
}

pub fn de<T: DeserializeOwned + Serialize>(arg: &Value) -> R {
    let s = arg.to_string();
    let t: T = serde_json::from_str(&s).map_err(|e| e.to_string())?;
    ser(&t)
}

/// de -> ser -> de -> ser ; returns {"first":…,"second":…}
pub fn rt<T: DeserializeOwned + Serialize>(arg: &Value) -> R {
    let s = arg.to_string();
    let t: T = serde_json::from_str(&s).map_err(|e| e.to_string())?;
    let w1 = ser(&t)?;
    let t2: T = match serde_json::from_str(&w1) {
        Ok(t) => t,
        Err(e) => return Ok(format!("{{\"first\":{},\"second_err\":{}}}", w1, Value::String(e.to_string()))),
    };
    let w2 = ser(&t2)?;
    Ok(format!("{{\"first\":{},\"second\":{}}}", w1, w2))
}

fn arg_str(arg: &Value) -> Result<&str, String> {
    arg.as_str().ok_or_else(|| "HARNESS: probe argument is not a string".to_string())
}

pub fn parse<T: FromStr + Serialize>(arg: &Value) -> R
where
    T::Err: Debug,
{
    let s = arg_str(arg)?;
    let t = T::from_str(s).map_err(|e| format!("{:?}", e))?;
    ser(&t)
}

pub fn try_from_str<T: for<'a> TryFrom<&'a str> + Serialize>(arg: &Value) -> R {
    let s = arg_str(arg)?;
    let t = T::try_from(s).map_err(|_| "conversion error".to_string())?;
    ser(&t)
}

pub fn try_from_ref_string<T: for<'a> TryFrom<&'a String> + Serialize>(arg: &Value) -> R {
    let s = arg_str(arg)?.to_string();
    let t = T::try_from(&s).map_err(|_| "conversion error".to_string())?;
    ser(&t)
}

pub fn try_from_string<T: TryFrom<String> + Serialize>(arg: &Value) -> R {
    let s = arg_str(arg)?.to_string();
    let t = T::try_from(s).map_err(|_| "conversion error".to_string())?;
    ser(&t)
}

// The same conversions, reporting the value structurally as well (its Debug form names the
// variant that was chosen, which the serialized form of an untagged union does not)
fn ser_dbg<T: Serialize + Debug>(t: &T) -> R {
    let w = ser(t)?;
    Ok(format!("{{\"ser\":{},\"dbg\":{}}}", w, Value::String(format!("{:?}", t))))
}

pub fn de_dbg<T: DeserializeOwned + Serialize + Debug>(arg: &Value) -> R {
    let s = arg.to_string();
    let t: T = serde_json::from_str(&s).map_err(|e| e.to_string())?;
    ser_dbg(&t)
}

pub fn parse_dbg<T: FromStr + Serialize + Debug>(arg: &Value) -> R
where
    T::Err: Debug,
{
    let s = arg_str(arg)?;
    let t = T::from_str(s).map_err(|e| format!("{:?}", e))?;
    ser_dbg(&t)
}

pub fn try_from_str_dbg<T: for<'a> TryFrom<&'a str> + Serialize + Debug>(arg: &Value) -> R {
    let s = arg_str(arg)?;
    let t = T::try_from(s).map_err(|_| "conversion error".to_string())?;
    ser_dbg(&t)
}

pub fn try_from_ref_string_dbg<T: for<'a> TryFrom<&'a String> + Serialize + Debug>(arg: &Value) -> R {
    let s = arg_str(arg)?.to_string();
    let t = T::try_from(&s).map_err(|_| "conversion error".to_string())?;
    ser_dbg(&t)
}

pub fn try_from_string_dbg<T: TryFrom<String> + Serialize + Debug>(arg: &Value) -> R {
    let s = arg_str(arg)?.to_string();
    let t = T::try_from(s).map_err(|_| "conversion error".to_string())?;
    ser_dbg(&t)
}

/// deserialize, then report Display next to the serialized form
pub fn display<T: DeserializeOwned + Serialize + Display>(arg: &Value) -> R {
    let s = arg.to_string();
    let t: T = serde_json::from_str(&s).map_err(|e| e.to_string())?;
    let w = ser(&t)?;
    Ok(format!("{{\"display\":{},\"ser\":{}}}", Value::String(t.to_string()), w))
}

pub fn default<T: Default + Serialize>(_arg: &Value) -> R {
    ser(&T::default())
}

/// Clone + From<&T> + Debug exercised at run time (C19 dynamic half)
pub fn from_ref<T: DeserializeOwned + Serialize + Clone + Debug + for<'a> From<&'a T>>(arg: &Value) -> R {
    let s = arg.to_string();
    let t: T = serde_json::from_str(&s).map_err(|e| e.to_string())?;
    let u: T = T::from(&t);
    let _ = format!("{:?}", u);
    let a = ser(&t)?;
    let b = ser(&u)?;
    let c = ser(&t.clone())?;
    Ok(format!("{{\"orig\":{},\"from_ref\":{},\"clone\":{}}}", a, b, c))
}

// ---- compile-time trait assertions (each call site sits on its own line) --
pub fn assert_base<T: Debug + Clone + Serialize + DeserializeOwned + for<'a> From<&'a T>>() {}
pub fn assert_simple_enum<T: Copy + Eq + Ord + std::hash::Hash + PartialEq + PartialOrd>() {}
pub fn assert_string_newtype<T: Eq + Ord + std::hash::Hash + PartialEq + PartialOrd>() {}
pub fn assert_from_str<T: FromStr>() {}
pub fn assert_display<T: Display>() {}
pub fn assert_default<T: Default>() {}
pub fn assert_partial_eq<T: PartialEq>() {}
pub fn assert_sized<T: Sized>() {}
pub fn assert_derive<T: crate::prelude::Marker>() {}
