// Shard binary: answers probes, one JSON object per line.
#![allow(warnings)]
mod rt;
pub mod prelude;
use std::io::{BufRead, Write};

fn main() {
    std::panic::set_hook(Box::new(|_| {}));
    let h = std::thread::Builder::new().stack_size(64 << 20).spawn(serve).unwrap();
    let _ = h.join();
}

fn serve() {
    let stdin = std::io::stdin();
    let stdout = std::io::stdout();
    for line in stdin.lock().lines() {
        let Ok(line) = line else { break };
        if line.is_empty() { continue; }
        let req: serde_json::Value = match serde_json::from_str(&line) {
            Ok(v) => v,
            Err(e) => { println!("{{\"harness\":\"bad request\"}}"); continue; }
        };
        let case = req["case"].as_u64().unwrap_or(u64::MAX) as usize;
        let root = req["root"].as_u64().unwrap_or(u64::MAX) as usize;
        let op = req["op"].as_str().unwrap_or("").to_string();
        let arg = req["arg"].clone();
        let res = std::panic::catch_unwind(std::panic::AssertUnwindSafe(|| dispatch(case, root, &op, &arg)));
        let out = match res {
            Ok(Ok(text)) => format!("{{\"ok\":{}}}", text),
            Ok(Err(e)) => format!("{{\"err\":{}}}", serde_json::Value::String(e)),
            Err(p) => {
                let msg = if let Some(s) = p.downcast_ref::<&str>() { s.to_string() }
                          else if let Some(s) = p.downcast_ref::<String>() { s.clone() } else { "panic".to_string() };
                format!("{{\"panic\":{}}}", serde_json::Value::String(msg))
            }
        };
        let mut o = stdout.lock();
        let _ = writeln!(o, "{}", out);
        let _ = o.flush();
    }
}
