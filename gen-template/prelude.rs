// Stand-in types used by replace/convert/x-rust-type/map-type cases. Every one
// implements every trait typify may require of a replacement type, so a
// compile error can never be the "user's" fault (DESIGN.md C01 notes).
#![allow(dead_code)]
use serde::{Deserialize, Serialize};

pub trait Marker {}

macro_rules! standin {
    ($($n:ident),*) => {$(
        #[derive(Serialize, Deserialize, Clone, Debug, Default, PartialEq, Eq, PartialOrd, Ord, Hash)]
        pub struct $n(pub String);
        impl ::std::str::FromStr for $n {
            type Err = ::std::convert::Infallible;
            fn from_str(s: &str) -> Result<Self, Self::Err> { Ok($n(s.to_string())) }
        }
        impl ::std::fmt::Display for $n {
            fn fmt(&self, f: &mut ::std::fmt::Formatter<'_>) -> ::std::fmt::Result { self.0.fmt(f) }
        }
    )*};
}
standin!(Mark0, Mark1, Mark2, Mark3, Mark4, Mark5, Mark6, Mark7);

/// Generic stand-ins for x-rust-type with parameters.
#[derive(Serialize, Deserialize, Clone, Debug, Default, PartialEq)]
pub struct Gen1<A>(pub A);
#[derive(Serialize, Deserialize, Clone, Debug, Default, PartialEq)]
pub struct Gen2<A, B>(pub A, pub B);

/// A map type meeting exactly the documented requirements of `with_map_type`:
/// two generic parameters, `is_empty`, Default + Clone + Debug + Serialize +
/// Deserialize.
#[derive(Clone, Debug, PartialEq)]
pub struct MyMap<K, V>(pub Vec<(K, V)>);
impl<K, V> Default for MyMap<K, V> {
    fn default() -> Self { MyMap(Vec::new()) }
}
impl<K, V> MyMap<K, V> {
    pub fn is_empty(&self) -> bool { self.0.is_empty() }
}
impl<K: Serialize, V: Serialize> Serialize for MyMap<K, V> {
    fn serialize<S: serde::Serializer>(&self, s: S) -> Result<S::Ok, S::Error> {
        use serde::ser::SerializeMap;
        let mut m = s.serialize_map(Some(self.0.len()))?;
        for (k, v) in &self.0 { m.serialize_entry(k, v)?; }
        m.end()
    }
}
impl<'de, K: Deserialize<'de>, V: Deserialize<'de>> Deserialize<'de> for MyMap<K, V> {
    fn deserialize<D: serde::Deserializer<'de>>(d: D) -> Result<Self, D::Error> {
        struct Vis<K, V>(std::marker::PhantomData<(K, V)>);
        impl<'de, K: Deserialize<'de>, V: Deserialize<'de>> serde::de::Visitor<'de> for Vis<K, V> {
            type Value = MyMap<K, V>;
            fn expecting(&self, f: &mut std::fmt::Formatter) -> std::fmt::Result { f.write_str("a map") }
            fn visit_map<A: serde::de::MapAccess<'de>>(self, mut a: A) -> Result<Self::Value, A::Error> {
                let mut v = Vec::new();
                while let Some((k, val)) = a.next_entry()? { v.push((k, val)); }
                Ok(MyMap(v))
            }
        }
        d.deserialize_map(Vis(std::marker::PhantomData))
    }
}
