#!/usr/bin/env python3
"""Regenerate MANIFEST.json from the list of built checks (kept valid at all times)."""
import json, sys
props=[json.loads(l) for l in open('/verif/properties.jsonl')]
built = sys.argv[1].split(',') if len(sys.argv) > 1 else []
TECH = {
 "C01":"property-based testing: grammar-generated schemas x settings x ingestion histories; oracle = syn parse + rustc 1.80.1 type-check of the emitted module; structural shrinking",
 "C02":"property-based testing: schema-directed instance generation + mutation, differential oracle against python jsonschema (valid => accepted by the compiled type)",
 "C03":"property-based testing: round-trip oracle (containment, re-validation by python jsonschema, idempotence) on compiled generated types",
 "C05":"property-based testing: single-edit mutants classified by python jsonschema (invalid => rejected), conversion-agreement and static syn scan",
 "C07":"exhaustive small-scope enumeration + random graphs; oracle = independent DFS for by-value cycles over Type::details(), minimality relation, rustc E0072 on a sample",
 "C08":"exhaustive short strings + keyword lists + random Unicode + colliding pairs; oracle = syn analysis (identifier validity, scope uniqueness, effective serde names)",
 "C10":"exhaustive boundary-lattice enumeration against an exact (i128) reference decision function",
 "C12":"metamorphic testing: re-rendering, fresh type spaces, fresh processes, key-order/whitespace permutations, real cargo-typify binary",
 "C13":"exhaustive decision table against a reference decision function (semver verdicts by construction, cross-checked)",
 "C16":"stateful property-based testing: generated API histories interpreted step by step with invariants after every step and split-vs-single-call comparison",
 "C04":"property-based testing over generated Rust type universes: real serde+schemars origin crate and typify-generated crate exchange JSON (round-trip / differential oracle, both ingestion routes)",
 "C06":"property-based testing: defaults generated per type kind (valid instances and single-edit mutants, classified by python jsonschema); oracle = refusal at add time or realised default (serde / builder / Default impl) containing the schema default",
 "C09":"metamorphic testing: all permutations of generated allOf compositions compiled side by side; python jsonschema decides validity under the conjunction; accept vectors and round trips compared across orders",
 "C11":"property-based testing: probe strings through parse/TryFrom/Display of compiled generated types, differential oracle against serde (Deserialize/Serialize of the same string)",
 "C14":"metamorphic testing: same document under default and generated settings compiled side by side (wire behaviour of unrelated types must agree) plus syn obligations at every use site",
 "C15":"differential testing of front-ends: cargo-typify binary and import_types! expansion (nightly -Zunpretty=expanded, twin crate) against the builder under translated settings, token comparison",
 "C17":"property-based testing: iter_types() answers compared with the syn index of the output; compiled bound assertions for identifiers, builder paths and has_impl claims",
 "C18":"property-based testing: generated builder scripts (all property subsets, raw-string setters) executed against the compiled output; oracle = required-set coverage, equality with deserialization, rebuild identity",
 "C19":"property-based testing: one compiled trait-bound assertion per (type, promised trait set) for every named type the API yields, syn visibility scan",
}
FUZZ = " ; thorough tier additionally: coverage-guided fuzzing (cargo-fuzz/libFuzzer) whose bytes drive the same structured generator, in-process oracle half inside the target, recorded cases and distilled corpus re-judged by the full pipeline"
for k in ("C01","C07","C08","C12","C16","C17","C19"):
    TECH[k] += FUZZ
checks=[]
for p in props:
    if p['id'] in built:
        checks.append({
            "property_id": p['id'],
            "quick_cmd": f"./check {p['id']} quick",
            "thorough_cmd": f"./check {p['id']} thorough",
            "evidence_file": f"evidence/{p['id']}.json",
            "replay_cmd_template": f"./check {p['id']} --replay {{path}}",
            "engine": "vrf",
            "level_claimed": {"category":"exploration","text":"generated-input search with an explicit oracle: the property held on every case explored (counts, non-triviality rule, class histogram and samples are in the evidence file); this is a search, not a proof of absence","design_ref":"DESIGN.md §5 "+p['id']},
            "level_note":"trusted base: rustc 1.80.1 and serde as the judge of generated code, python jsonschema (Draft7Validator) as independent validator, the harness' own generators and reference functions; known findings listed in known_findings.json are reported as KNOWN-FINDING lines and excluded from generation by construction",
            "technique": TECH.get(p['id'],"property-based testing with generated inputs and an explicit oracle")
        })
m={
 "version":1,
 "setup_cmd":"./setup.sh",
 "hooks":{"guard":"typify_verif","enable":"none needed: every property is observable through the public API, the emitted tokens and the compiled artefact; no hook commit exists","baseline_off_cmd":"cd /repo && cargo test --workspace --no-fail-fast --offline","source_commits":[],"add_only":True},
 "engines":[{"name":"vrf","path":"harness/vrf","serves_properties":sorted(built),"kind_free_text":"Rust property-based testing harness (proptest-seeded generators, worker sub-processes running typify under catch_unwind, batch compile pipeline with rustc 1.80.1, python jsonschema oracle, batched structural shrinker, replay files)"},
  {"name":"vrf-fuzz","path":"harness/fuzz","serves_properties":["C01","C07","C08","C12","C16","C17","C19"],"kind_free_text":"cargo-fuzz / libFuzzer target `inproc` (nightly, no sanitizer): bytes -> G::from_bytes -> the property's structured generator -> in-process oracle half; stage of the thorough tier, its recorded cases and corpus are re-judged by vrf (DESIGN.md 11.6)"}],
 "checks":checks,
 "not_applicable":[{"property_id":p['id'],"reason":"check not built yet (work in progress; DESIGN.md §5 describes the planned check)"} for p in props if p['id'] not in built],
 "notes":"see DESIGN.md; fixes to typify are the `fix:` commits in /repo, recorded as `fixed:` entries in known_findings.json"
}
json.dump(m,open('/verif/MANIFEST.json','w'),indent=1)
