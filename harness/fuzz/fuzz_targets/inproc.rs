#![no_main]
//! Coverage-guided stage: bytes -> structured generator of the property named
//! by VRF_FUZZ_PROP -> in-process oracle half (see vrf::fuzzing).
use libfuzzer_sys::fuzz_target;

fuzz_target!(|data: &[u8]| {
    vrf::fuzzing::target(data);
});
