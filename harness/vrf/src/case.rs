//! The unit of generation, shrinking and replay (DESIGN.md Appendix A).
//! A case is a pure JSON value; every check evaluates cases through the same
//! pipeline (ingest -> analyse -> compile/run -> judge).

use serde::{Deserialize, Serialize};
use serde_json::Value;
use std::collections::BTreeMap;

#[derive(Serialize, Deserialize, Clone, Debug, Default, PartialEq)]
pub struct Patch {
    #[serde(default, skip_serializing_if = "Option::is_none")]
    pub rename: Option<String>,
    #[serde(default, skip_serializing_if = "Vec::is_empty")]
    pub derives: Vec<String>,
}

#[derive(Serialize, Deserialize, Clone, Debug, Default, PartialEq)]
pub struct Replace {
    pub ty: String,
    #[serde(default, skip_serializing_if = "Vec::is_empty")]
    pub impls: Vec<String>,
}

#[derive(Serialize, Deserialize, Clone, Debug, Default, PartialEq)]
pub struct Convert {
    pub schema: Value,
    pub ty: String,
    #[serde(default, skip_serializing_if = "Vec::is_empty")]
    pub impls: Vec<String>,
}

#[derive(Serialize, Deserialize, Clone, Debug, Default, PartialEq)]
pub struct CrateCfg {
    pub version: String,
    #[serde(default, skip_serializing_if = "Option::is_none")]
    pub rename: Option<String>,
}

fn is_false(b: &bool) -> bool {
    !*b
}

#[derive(Serialize, Deserialize, Clone, Debug, Default, PartialEq)]
pub struct Settings {
    #[serde(default, skip_serializing_if = "is_false")]
    pub struct_builder: bool,
    #[serde(default, skip_serializing_if = "Option::is_none")]
    pub map_type: Option<String>,
    #[serde(default, skip_serializing_if = "Vec::is_empty")]
    pub derives: Vec<String>,
    #[serde(default, skip_serializing_if = "Option::is_none")]
    pub type_mod: Option<String>,
    #[serde(default, skip_serializing_if = "BTreeMap::is_empty")]
    pub patch: BTreeMap<String, Patch>,
    #[serde(default, skip_serializing_if = "BTreeMap::is_empty")]
    pub replace: BTreeMap<String, Replace>,
    #[serde(default, skip_serializing_if = "Vec::is_empty")]
    pub convert: Vec<Convert>,
    #[serde(default, skip_serializing_if = "BTreeMap::is_empty")]
    pub crates: BTreeMap<String, CrateCfg>,
    #[serde(default, skip_serializing_if = "Option::is_none")]
    pub unknown_crates: Option<String>,
}

/// One ingestion call.
#[derive(Serialize, Deserialize, Clone, Debug, PartialEq)]
#[serde(tag = "op", rename_all = "lowercase")]
pub enum Step {
    /// `add_root_schema(doc)`
    Root { doc: Value },
    /// `add_ref_types(defs)` -- `defs` is an object name -> schema (sorted
    /// order, like the `definitions` map of a RootSchema).
    Refs { defs: Value },
    /// `add_type_with_name(schema, hint)` / `add_type(schema)`
    Type {
        schema: Value,
        #[serde(default, skip_serializing_if = "Option::is_none")]
        hint: Option<String>,
    },
}

/// How a probe addresses "the type generated for that schema".
#[derive(Serialize, Deserialize, Clone, Debug, PartialEq)]
#[serde(untagged)]
pub enum RootSel {
    /// located via `add_type(&{"$ref": r})` after the history ran
    Ref {
        #[serde(rename = "ref")]
        r: String,
    },
    /// the TypeId returned by history step `step`
    Step { step: usize },
}

#[derive(Serialize, Deserialize, Clone, Debug, PartialEq)]
pub struct Probe {
    pub root: usize,
    pub op: String,
    #[serde(default)]
    pub arg: Value,
    #[serde(default, skip_serializing_if = "String::is_empty")]
    pub tag: String,
}

#[derive(Serialize, Deserialize, Clone, Debug, Default, PartialEq)]
pub struct Case {
    #[serde(default)]
    pub settings: Settings,
    pub history: Vec<Step>,
    #[serde(default, skip_serializing_if = "Vec::is_empty")]
    pub roots: Vec<RootSel>,
    #[serde(default, skip_serializing_if = "Vec::is_empty")]
    pub probes: Vec<Probe>,
    /// property specific payload (never interpreted by the shared pipeline)
    #[serde(default, skip_serializing_if = "Value::is_null")]
    pub extra: Value,
    /// generator feature labels, for the class histogram only; never used by
    /// an oracle
    #[serde(default, skip_serializing_if = "Vec::is_empty")]
    pub features: Vec<String>,
}

impl Case {
    pub fn single_root(doc: Value) -> Case {
        Case {
            history: vec![Step::Root { doc }],
            ..Default::default()
        }
    }
}
