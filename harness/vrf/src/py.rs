//! Bridge to the independent draft-07 validator (python jsonschema).

use serde_json::{json, Value};
use std::io::{BufRead, BufReader, Write};
use std::process::{Child, ChildStdin, ChildStdout, Command, Stdio};

struct Proc {
    child: Child,
    stdin: ChildStdin,
    stdout: BufReader<ChildStdout>,
}

/// Lazily started python process.
#[derive(Default)]
pub struct Py {
    proc_: Option<Proc>,
    pub queries: usize,
    pub instances: usize,
}

impl Py {
    pub fn new() -> Py {
        Py::default()
    }

    fn start() -> Result<Proc, String> {
        let mut child = Command::new("python3-vt")
            .arg("/verif/oracle/oracle.py")
            .stdin(Stdio::piped())
            .stdout(Stdio::piped())
            .stderr(Stdio::inherit())
            .spawn()
            .map_err(|e| format!("python3-vt: {e}"))?;
        let stdin = child.stdin.take().unwrap();
        let mut stdout = BufReader::new(child.stdout.take().unwrap());
        let mut line = String::new();
        stdout.read_line(&mut line).map_err(|e| e.to_string())?;
        if !line.contains("ready") {
            return Err(format!("python oracle did not start (self-test failed?): {line}"));
        }
        Ok(Proc { child, stdin, stdout })
    }

    /// Some(true/false) per instance; None where python could not judge
    /// (unresolvable reference, regex it cannot compile).
    pub fn validate(&mut self, schema: &Value, r: Option<&str>, instances: &[Value]) -> Result<Vec<Option<bool>>, String> {
        if instances.is_empty() {
            return Ok(vec![]);
        }
        if self.proc_.is_none() {
            self.proc_ = Some(Py::start()?);
        }
        self.queries += 1;
        self.instances += instances.len();
        let req = json!({"schema": schema, "ref": r, "instances": instances});
        let line = serde_json::to_string(&req).unwrap();
        let pr = self.proc_.as_mut().unwrap();
        pr.stdin.write_all(line.as_bytes()).map_err(|e| e.to_string())?;
        pr.stdin.write_all(b"\n").map_err(|e| e.to_string())?;
        pr.stdin.flush().map_err(|e| e.to_string())?;
        let mut out = String::new();
        pr.stdout.read_line(&mut out).map_err(|e| e.to_string())?;
        let v: Value = serde_json::from_str(&out).map_err(|e| format!("python reply: {e}: {out}"))?;
        if let Some(e) = v.get("error") {
            // schema-level failure: nothing can be judged
            let _ = e;
            return Ok(instances.iter().map(|_| None).collect());
        }
        Ok(v["valid"]
            .as_array()
            .ok_or("python reply without valid")?
            .iter()
            .map(|b| b.as_bool())
            .collect())
    }
}

impl Drop for Py {
    fn drop(&mut self) {
        if let Some(p) = self.proc_.as_mut() {
            let _ = p.child.kill();
            let _ = p.child.wait();
        }
    }
}
