//! vrf: property-based verification harness for typify (see /verif/DESIGN.md).
//! Library half: shared by the `vrf` binary and by the libFuzzer target in
//! `/verif/harness/fuzz`.
pub mod analyse;
pub mod case;
pub mod compile;
pub mod engine;
pub mod fuzzing;
pub mod gen;
pub mod ingest;
pub mod pool;
pub mod props;
pub mod py;
pub mod shrink;
