//! Name alphabets (DESIGN.md §4.1).

use super::G;

pub const DEF_NAMES: &[&str] = &[
    "Alpha", "Bravo", "Charlie", "Delta", "Echo", "Foxtrot", "Golf", "Hotel", "India", "Juliet",
    "Kilo", "Lima",
];

pub const PROP_NAMES: &[&str] = &[
    "name", "value", "count", "kind", "ident", "items", "data", "flag", "left", "right", "size",
    "label", "first", "second", "amount", "weight", "color", "shape", "owner", "state", "zone",
    "fooBar", "foo_baz", "x", "y", "z", "q1", "payload", "meta", "next", "prev", "child", "parent",
    // names whose Rust identifier differs from the JSON name (serde rename needed)
    "user-name", "retryCount", "Kind", "content-type", "itemList", "X-Trace",
];

pub const ENUM_VALUES: &[&str] = &[
    "red", "green", "blue", "north", "south", "east", "west", "on", "off", "low", "mid", "high",
    "a", "b", "c", "first-one", "second_one", "ThirdOne", "x1", "up", "down",
];

/// The complete Rust keyword list (strict, reserved, weak; 2018 and 2024
/// additions) plus path keywords and other troublemakers.
pub const KEYWORDS: &[&str] = &[
    "as", "break", "const", "continue", "crate", "else", "enum", "extern", "false", "fn", "for",
    "if", "impl", "in", "let", "loop", "match", "mod", "move", "mut", "pub", "ref", "return",
    "self", "Self", "static", "struct", "super", "trait", "true", "type", "unsafe", "use", "where",
    "while", "async", "await", "dyn", "abstract", "become", "box", "do", "final", "macro",
    "override", "priv", "typeof", "unsized", "virtual", "yield", "try", "gen", "union",
    "macro_rules", "raw", "safe", "auto", "default", "_", "'static",
];

pub const RESERVED_TYPEISH: &[&str] = &[
    "String", "Vec", "Option", "Box", "Result", "Ok", "Err", "Some", "None", "Default", "Clone",
    "Debug", "Value", "Error", "error", "builder", "defaults", "Builder", "serde", "std", "core",
    "From", "Into", "TryFrom", "Sized", "Send", "Sync", "Copy", "Drop", "Fn", "Iterator", "Self_",
    "ConversionError", "Display", "FromStr", "Deserialize", "Serialize", "i32", "u8", "bool", "str",
    "f64", "usize", "char", "extra",
];

/// Representative alphabet of DESIGN §4.1 (12 symbols) for exhaustive short
/// strings: XID_Start lower/upper ASCII and non-ASCII, XID_Continue-only,
/// '_', '-', ''', space, symbols.
pub const ALPHABET12: &[char] = &['a', 'B', 'é', '名', '1', '\u{00B7}', '_', '-', '\'', ' ', '+', '$'];

pub const ODD_CHARS: &[char] = &[
    'a', 'b', 'Z', 'é', 'Ω', '名', '1', '9', '\u{00B7}', '\u{0301}', '_', '-', '\'', ' ', '+', '.',
    '/', ':', '$', '@', '#', '{', '}', '%', '"', '\\', '\u{1F600}', '=', '<', '>', '*', '!', '?',
    '\n', '\t',
];

pub fn benign_prop(g: &mut G) -> String {
    if g.chance(4, 5) {
        g.pick(PROP_NAMES).to_string()
    } else {
        let n = 1 + g.below(7);
        (0..n).map(|_| (b'a' + g.below(26) as u8) as char).collect()
    }
}

/// `n` property names that are pairwise distinct after snake-casing.
pub fn benign_props(g: &mut G, n: usize) -> Vec<String> {
    let mut out: Vec<String> = vec![];
    let mut seen = std::collections::BTreeSet::new();
    let mut tries = 0;
    while out.len() < n && tries < 100 {
        tries += 1;
        let p = benign_prop(g);
        let key = heck_snake(&p);
        if is_keywordish(&key) {
            continue;
        }
        if seen.insert(key) {
            out.push(p);
        }
    }
    out
}

pub fn heck_snake(s: &str) -> String {
    use heck::ToSnakeCase;
    s.to_snake_case()
}

pub fn heck_pascal(s: &str) -> String {
    use heck::ToPascalCase;
    s.to_pascal_case()
}

pub fn is_keywordish(s: &str) -> bool {
    KEYWORDS.contains(&s) || RESERVED_TYPEISH.contains(&s)
}

pub fn odd_string(g: &mut G, max: usize) -> String {
    let n = g.below(max + 1);
    (0..n).map(|_| *g.pick(ODD_CHARS)).collect()
}

/// Any name from the alphabet classes of §4.1.
pub fn odd_name(g: &mut G) -> String {
    match g.weighted(&[3, 2, 2, 3, 1, 1]) {
        0 => g.pick(KEYWORDS).to_string(),
        1 => {
            let k = g.pick(KEYWORDS).to_string();
            match g.below(3) {
                0 => heck_pascal(&k),
                1 => k.to_uppercase(),
                _ => format!("{k}_"),
            }
        }
        2 => g.pick(RESERVED_TYPEISH).to_string(),
        3 => odd_string(g, 6),
        4 => {
            // heck edge cases
            g.pick(&["aB", "a1b", "A_B", "a__b", "XMLHttp", "1abc", "9", "a-b", "a.b", "a b", "+1", "-1", "", " ", "__", "a'b", "ａ"]).to_string()
        }
        _ => {
            let n = 1 + g.below(24);
            (0..n)
                .map(|_| {
                    let c = g.below(0x3000) as u32 + 0x20;
                    char::from_u32(c).unwrap_or('x')
                })
                .collect()
        }
    }
}

/// A pair of distinct strings that plausibly collide after sanitisation.
pub fn colliding_pair(g: &mut G) -> (String, String) {
    let base = match g.below(3) {
        0 => benign_prop(g),
        1 => format!("{}_{}", benign_prop(g), benign_prop(g)),
        _ => odd_name(g),
    };
    let variant = match g.below(8) {
        0 => base.to_uppercase(),
        1 => base.to_lowercase(),
        2 => base.replace('_', "-"),
        3 => base.replace('-', "_"),
        4 => format!("{base}'"),
        5 => base.replace('_', " "),
        6 => heck_pascal(&base),
        _ => {
            let mut s = base.clone();
            s.push(*g.pick(&['-', '_', ' ', '.', '$']));
            s
        }
    };
    (base, variant)
}

/// Exhaustive strings over ALPHABET12 up to `len`.
pub fn exhaustive(len: usize) -> Vec<String> {
    let mut out = vec![String::new()];
    let mut frontier = vec![String::new()];
    for _ in 0..len {
        let mut next = vec![];
        for s in &frontier {
            for c in ALPHABET12 {
                let mut t = s.clone();
                t.push(*c);
                next.push(t);
            }
        }
        out.extend(next.iter().cloned());
        frontier = next;
    }
    out
}

/// A replica of typify's identifier sanitisation, used ONLY to steer
/// generators away from known findings and in known-finding predicates --
/// never inside an oracle.
pub fn sanitize_like(input: &str, pascal: bool) -> String {
    use heck::{ToPascalCase, ToSnakeCase};
    let to_case = |s: &str| if pascal { s.to_pascal_case() } else { s.to_snake_case() };
    let out = match input {
        "async" => "async_".to_string(),
        "+1" => "plus1".to_string(),
        "-1" => "minus1".to_string(),
        _ => to_case(&input.replace('\'', "").replace(|c| !unicode_ident::is_xid_continue(c), "-")),
    };
    let prefix = to_case("x");
    let out = match out.chars().next() {
        None => prefix,
        Some(c) if unicode_ident::is_xid_start(c) => out,
        Some(_) => format!("{}{}", prefix, out),
    };
    if syn::parse_str::<syn::Ident>(&out).is_ok() {
        out
    } else {
        format!("{}_", out)
    }
}

/// `n` odd names that are pairwise distinct after sanitisation in both cases
/// and do not sanitise to the empty-name fallback (`x` / `X`) twice.
pub fn odd_names_distinct(g: &mut G, n: usize, excluded: &mut u64) -> Vec<String> {
    let mut out: Vec<String> = vec![];
    let mut seen_s = std::collections::BTreeSet::new();
    let mut seen_p = std::collections::BTreeSet::new();
    let mut tries = 0;
    while out.len() < n && tries < 60 {
        tries += 1;
        let s = if g.chance(1, 2) { odd_name(g) } else { benign_prop(g) };
        let a = sanitize_like(&s, false);
        let b = sanitize_like(&s, true);
        // a name without any alphanumeric character contributes nothing to a
        // derived type name (Parent + "" = Parent): same collision family
        let bare = heck_pascal(&s.replace('\'', "").replace(|c| !unicode_ident::is_xid_continue(c), "-"));
        if bare.is_empty() || seen_s.contains(&a) || seen_p.contains(&b) {
            *excluded += 1;
            continue;
        }
        seen_s.insert(a);
        seen_p.insert(b);
        out.push(s);
    }
    out
}
