//! Generators (DESIGN.md §4). Every random choice comes from the proptest
//! runner's seeded ChaCha RNG (`TestRunner::new_with_rng` / `prop_perturb`), so
//! a run is a pure function of (tree of /repo, VERIF_SEED, tier).

pub mod instance;
pub mod names;
pub mod rust;
pub mod schema;

use proptest::prelude::*;
use proptest::strategy::ValueTree;
use proptest::test_runner::{Config, RngAlgorithm, TestRng, TestRunner};
use serde_json::Value;

/// Source of every generator decision: proptest's seeded TestRng, or - for the
/// coverage-guided stage - the bytes handed over by libFuzzer (small choices
/// consume one byte so that byte-level mutation maps to structural mutation;
/// when the bytes run out a counter-driven splitmix64 tail, itself a function
/// of the input, keeps every generator loop finite).
pub enum Src {
    Rng(TestRng),
    Bytes { data: Vec<u8>, pos: usize, ctr: u64 },
}

pub struct G {
    src: Src,
}

fn splitmix(mut z: u64) -> u64 {
    z = z.wrapping_add(0x9E3779B97F4A7C15);
    z = (z ^ (z >> 30)).wrapping_mul(0xBF58476D1CE4E5B9);
    z = (z ^ (z >> 27)).wrapping_mul(0x94D049BB133111EB);
    z ^ (z >> 31)
}

impl G {
    pub fn new(rng: TestRng) -> G {
        G { src: Src::Rng(rng) }
    }
    pub fn from_bytes(data: &[u8]) -> G {
        let ctr = data.iter().fold(0xcbf29ce484222325u64, |h, b| (h ^ *b as u64).wrapping_mul(0x100000001b3));
        G { src: Src::Bytes { data: data.to_vec(), pos: 0, ctr } }
    }
    fn take(&mut self, n: usize) -> u64 {
        match &mut self.src {
            Src::Rng(r) => r.next_u64(),
            Src::Bytes { data, pos, ctr } => {
                if *pos + n <= data.len() {
                    let mut x = 0u64;
                    for b in &data[*pos..*pos + n] {
                        x = (x << 8) | *b as u64;
                    }
                    *pos += n;
                    x
                } else {
                    *pos = data.len();
                    *ctr = ctr.wrapping_add(1);
                    splitmix(*ctr)
                }
            }
        }
    }
    pub fn u64(&mut self) -> u64 {
        self.take(8)
    }
    /// uniform in 0..n (n > 0)
    pub fn below(&mut self, n: usize) -> usize {
        if n <= 1 {
            return 0;
        }
        let width = match &self.src {
            Src::Rng(_) => 8,
            Src::Bytes { .. } if n <= 256 => 1,
            Src::Bytes { .. } if n <= 65536 => 2,
            Src::Bytes { .. } => 8,
        };
        (self.take(width) % n as u64) as usize
    }
    /// inclusive range
    pub fn range(&mut self, lo: i64, hi: i64) -> i64 {
        if hi <= lo {
            return lo;
        }
        let span = (hi as i128 - lo as i128 + 1) as u128;
        (lo as i128 + (self.u64() as u128 % span) as i128) as i64
    }
    /// true with probability num/den
    pub fn chance(&mut self, num: usize, den: usize) -> bool {
        self.below(den) < num
    }
    pub fn pick<'a, T>(&mut self, xs: &'a [T]) -> &'a T {
        &xs[self.below(xs.len())]
    }
    /// weighted choice: returns index
    pub fn weighted(&mut self, ws: &[usize]) -> usize {
        let total: usize = ws.iter().sum();
        let mut x = self.below(total.max(1));
        for (i, w) in ws.iter().enumerate() {
            if x < *w {
                return i;
            }
            x -= w;
        }
        ws.len() - 1
    }
    pub fn shuffle<T>(&mut self, xs: &mut Vec<T>) {
        for i in (1..xs.len()).rev() {
            let j = self.below(i + 1);
            xs.swap(i, j);
        }
    }
    /// random subset
    pub fn subset<T: Clone>(&mut self, xs: &[T], num: usize, den: usize) -> Vec<T> {
        xs.iter().filter(|_| self.chance(num, den)).cloned().collect()
    }
}

pub fn runner(seed: u64, salt: &str) -> TestRunner {
    // 32-byte ChaCha seed derived from VERIF_SEED and a per-generator salt
    let mut bytes = [0u8; 32];
    bytes[..8].copy_from_slice(&seed.to_le_bytes());
    for (i, b) in salt.bytes().enumerate() {
        bytes[8 + (i % 24)] ^= b.wrapping_add(i as u8);
    }
    let rng = TestRng::from_seed(RngAlgorithm::ChaCha, &bytes);
    TestRunner::new_with_rng(
        Config {
            failure_persistence: None,
            ..Config::default()
        },
        rng,
    )
}

/// Draw `n` values of a generator function through a proptest strategy
/// (`prop_perturb` hands the function an RNG forked from the runner's).
pub fn draw<T: std::fmt::Debug + Clone + 'static>(
    seed: u64,
    salt: &str,
    n: usize,
    f: impl Fn(&mut G) -> T + Clone + 'static,
) -> Vec<T> {
    let mut runner = runner(seed, salt);
    let strat = Just(()).prop_perturb(move |_, rng| {
        let mut g = G::new(rng);
        f(&mut g)
    });
    (0..n)
        .map(|_| strat.new_tree(&mut runner).expect("strategy").current())
        .collect()
}

pub fn to_value<T: serde::Serialize>(t: &T) -> Value {
    serde_json::to_value(t).unwrap()
}

/// Counters of generator draws rewritten/avoided to stay clear of known
/// findings ("excluded by construction"), reported in the evidence file.
pub static EXCLUSIONS: std::sync::Mutex<std::collections::BTreeMap<String, u64>> = std::sync::Mutex::new(std::collections::BTreeMap::new());

pub fn excluded(what: &str, n: u64) {
    if n > 0 {
        *EXCLUSIONS.lock().unwrap().entry(what.to_string()).or_default() += n;
    }
}
