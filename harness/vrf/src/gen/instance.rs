//! Schema-directed instance generation (DESIGN.md §4.3). Works on the JSON
//! text of the schema, so it also serves mutated fixtures. The tag of an
//! instance is never trusted: python classifies every instance.

use super::schema::find_pattern;
use super::G;
use serde_json::{json, Map, Value};

pub struct Inst<'a> {
    pub doc: &'a Value,
    /// boundary flavour: prefer edge values
    pub boundary: bool,
}

fn resolve<'a>(doc: &'a Value, r: &str) -> Option<&'a Value> {
    if r == "#" {
        return Some(doc);
    }
    let p = r.strip_prefix('#')?;
    doc.pointer(&p.replace('~', "~0").replace("~00", "~0"))
        .or_else(|| doc.pointer(p))
}

const MULTI: &[char] = &['a', 'é', '名', '\u{1F600}', 'z', 'Ω'];

fn int_range(s: &Map<String, Value>) -> (i128, i128) {
    let (mut lo, mut hi): (i128, i128) = (i64::MIN as i128, i64::MAX as i128);
    if let Some(f) = s.get("format").and_then(|f| f.as_str()) {
        let r: Option<(i128, i128)> = match f {
            "int8" => Some((-128, 127)),
            "uint8" => Some((0, 255)),
            "int16" => Some((-32768, 32767)),
            "uint16" => Some((0, 65535)),
            "int32" | "int" => Some((i32::MIN as i128, i32::MAX as i128)),
            "uint32" | "uint" => Some((0, u32::MAX as i128)),
            "int64" => Some((i64::MIN as i128, i64::MAX as i128)),
            "uint64" => Some((0, u64::MAX as i128)),
            _ => None,
        };
        if let Some((a, b)) = r {
            lo = a;
            hi = b;
        }
    }
    let num = |k: &str| s.get(k).and_then(|v| v.as_f64());
    if let Some(m) = num("minimum") {
        lo = lo.max(m.ceil() as i128);
    }
    if let Some(m) = num("exclusiveMinimum") {
        lo = lo.max(m.floor() as i128 + 1);
    }
    if let Some(m) = num("maximum") {
        hi = hi.min(m.floor() as i128);
    }
    if let Some(m) = num("exclusiveMaximum") {
        hi = hi.min(m.ceil() as i128 - 1);
    }
    (lo, hi)
}

fn int_value(n: i128) -> Value {
    if n >= 0 {
        json!(n as u64)
    } else {
        json!(n as i64)
    }
}

fn gen_integer(g: &mut G, s: &Map<String, Value>, boundary: bool) -> Value {
    let (lo, hi) = int_range(s);
    if lo > hi {
        return json!(0);
    }
    let mult = s.get("multipleOf").and_then(|v| v.as_f64()).map(|m| m as i128).filter(|m| *m > 0);
    let mut n = if boundary || g.chance(1, 3) {
        *g.pick(&[lo, hi, lo, hi, (lo + 1).min(hi), (hi - 1).max(lo)])
    } else {
        let cands: Vec<i128> = [0i128, 1, -1, 2, 7, 42, 100, -100, 255, 256, 65536, 1 << 40]
            .iter()
            .cloned()
            .filter(|n| *n >= lo && *n <= hi)
            .collect();
        if cands.is_empty() {
            lo
        } else {
            *g.pick(&cands)
        }
    };
    if let Some(m) = mult {
        n = (n / m) * m;
        if n < lo {
            n += m;
        }
    }
    int_value(n)
}

fn gen_string(g: &mut G, s: &Map<String, Value>, boundary: bool) -> Value {
    if let Some(f) = s.get("format").and_then(|f| f.as_str()) {
        let v = match f {
            "uuid" => Some(*g.pick(&["123e4567-e89b-12d3-a456-426614174000", "00000000-0000-0000-0000-000000000000", "ffffffff-ffff-4fff-bfff-ffffffffffff"])),
            "date" => Some(*g.pick(&["2020-02-29", "1970-01-01", "1999-12-31"])),
            "date-time" => Some(*g.pick(&["2020-02-29T12:34:56Z", "1970-01-01T00:00:00Z", "1999-12-31T23:59:59Z"])),
            "ip" => Some(*g.pick(&["192.168.0.1", "::1", "10.0.0.255"])),
            "ipv4" => Some(*g.pick(&["192.168.0.1", "0.0.0.0", "255.255.255.255"])),
            "ipv6" => Some(*g.pick(&["::1", "fe80::1", "2001:db8::8a2e:370:7334"])),
            _ => None,
        };
        if let Some(v) = v {
            return json!(v);
        }
    }
    let min = s.get("minLength").and_then(|v| v.as_u64()).unwrap_or(0) as usize;
    let max = s.get("maxLength").and_then(|v| v.as_u64()).map(|m| m as usize);
    if let Some(p) = s.get("pattern").and_then(|p| p.as_str()) {
        if let Some(pat) = find_pattern(p) {
            let ok: Vec<&&str> = pat
                .good
                .iter()
                .filter(|w| {
                    let n = w.chars().count();
                    n >= min && max.map(|m| n <= m).unwrap_or(true)
                })
                .collect();
            if !ok.is_empty() {
                return json!(**g.pick(&ok));
            }
            return json!(*g.pick(pat.good));
        }
    }
    let hi = max.unwrap_or(min + 6).max(min);
    let n = if boundary || g.chance(1, 2) { *g.pick(&[min, hi]) } else { min + g.below(hi - min + 1) };
    let multi = g.chance(1, 2);
    let st: String = (0..n)
        .map(|_| if multi { *g.pick(MULTI) } else { (b'a' + g.below(26) as u8) as char })
        .collect();
    json!(st)
}

fn types_of(s: &Map<String, Value>) -> Vec<String> {
    match s.get("type") {
        Some(Value::String(t)) => vec![t.clone()],
        Some(Value::Array(a)) => a.iter().filter_map(|t| t.as_str().map(|s| s.to_string())).collect(),
        _ => vec![],
    }
}

impl<'a> Inst<'a> {
    pub fn new(doc: &'a Value) -> Inst<'a> {
        Inst { doc, boundary: false }
    }

    /// Generate an instance intended to be valid for `schema`.
    pub fn gen(&self, g: &mut G, schema: &Value, budget: i32) -> Value {
        let s = match schema {
            Value::Bool(_) => return self.any(g),
            Value::Object(o) => o,
            _ => return Value::Null,
        };
        if let Some(r) = s.get("$ref").and_then(|r| r.as_str()) {
            return match resolve(self.doc, r) {
                // below -8 there is no finite instance along this path
                Some(t) if budget > -8 => self.gen(g, t, budget - 1),
                _ => Value::Null,
            };
        }
        if let Some(c) = s.get("const") {
            return c.clone();
        }
        if let Some(Value::Array(vals)) = s.get("enum") {
            if !vals.is_empty() {
                let cands: Vec<&Value> = vals
                    .iter()
                    .filter(|v| {
                        let ts = types_of(s);
                        ts.is_empty() || ts.iter().any(|t| json_type_matches(t, v))
                    })
                    .collect();
                if !cands.is_empty() {
                    return (*g.pick(&cands)).clone();
                }
                return g.pick(vals).clone();
            }
        }
        for key in ["oneOf", "anyOf"] {
            if let Some(Value::Array(bs)) = s.get(key) {
                if !bs.is_empty() {
                    let b = if budget <= 0 {
                        // prefer a terminating branch
                        bs.iter().find(|b| !mentions_ref(b)).unwrap_or(&bs[0])
                    } else {
                        g.pick(bs)
                    };
                    return self.gen(g, b, budget - 1);
                }
            }
        }
        if let Some(Value::Array(bs)) = s.get("allOf") {
            let mut merged = Map::new();
            let mut all_obj = true;
            let mut last = Value::Null;
            for b in bs {
                let v = self.gen(g, b, budget - 1);
                match &v {
                    Value::Object(o) => {
                        for (k, x) in o {
                            merged.entry(k.clone()).or_insert(x.clone());
                        }
                    }
                    _ => all_obj = false,
                }
                last = v;
            }
            return if all_obj { Value::Object(merged) } else { last };
        }
        let mut ts = types_of(s);
        if ts.is_empty() {
            if s.contains_key("properties") || s.contains_key("additionalProperties") || s.contains_key("required") || s.contains_key("patternProperties") {
                ts.push("object".into());
            } else if s.contains_key("items") {
                ts.push("array".into());
            } else if s.contains_key("pattern") || s.contains_key("minLength") || s.contains_key("maxLength") {
                ts.push("string".into());
            } else if s.contains_key("not") {
                return json!("zz-not-listed");
            } else {
                return self.any(g);
            }
        }
        let t = if budget <= 0 && ts.iter().any(|t| t == "null") { "null".to_string() } else { g.pick(&ts).clone() };
        match t.as_str() {
            "null" => Value::Null,
            "boolean" => json!(g.chance(1, 2)),
            "integer" => gen_integer(g, s, self.boundary),
            "number" => {
                let k = g.range(-64, 64) as f64;
                json!(k + *g.pick(&[0.5, 0.25, 0.125]))
            }
            "string" => gen_string(g, s, self.boundary),
            "array" => self.gen_array(g, s, budget),
            "object" => self.gen_object(g, s, budget),
            _ => Value::Null,
        }
    }

    fn any(&self, g: &mut G) -> Value {
        match g.below(6) {
            0 => Value::Null,
            1 => json!(true),
            2 => json!(17),
            3 => json!("any"),
            4 => json!([1, "two"]),
            _ => json!({"k": 1}),
        }
    }

    fn gen_array(&self, g: &mut G, s: &Map<String, Value>, budget: i32) -> Value {
        let min = s.get("minItems").and_then(|v| v.as_u64()).unwrap_or(0) as usize;
        let max = s.get("maxItems").and_then(|v| v.as_u64()).map(|m| m as usize);
        match s.get("items") {
            Some(Value::Array(items)) => {
                let mut out: Vec<Value> = items.iter().map(|i| self.gen(g, i, budget - 1)).collect();
                if out.len() < min {
                    let extra = s.get("additionalItems").cloned().unwrap_or(json!(true));
                    while out.len() < min {
                        out.push(self.gen(g, &extra, budget - 1));
                    }
                }
                if let Some(m) = max {
                    out.truncate(m.max(min));
                }
                Value::Array(out)
            }
            items => {
                let any = json!(true);
                let item = items.unwrap_or(&any);
                let hi = max.unwrap_or(min + 3).max(min);
                let n = if budget <= 0 { min } else if self.boundary { *g.pick(&[min, hi]) } else { min + g.below(hi - min + 1) };
                let unique = s.get("uniqueItems").and_then(|u| u.as_bool()).unwrap_or(false);
                let mut out: Vec<Value> = vec![];
                let mut tries = 0;
                while out.len() < n && tries < n * 6 + 6 {
                    tries += 1;
                    let v = self.gen(g, item, budget - 1);
                    if unique && out.contains(&v) {
                        continue;
                    }
                    out.push(v);
                }
                Value::Array(out)
            }
        }
    }

    fn gen_object(&self, g: &mut G, s: &Map<String, Value>, budget: i32) -> Value {
        let mut out = Map::new();
        let required: Vec<String> = s
            .get("required")
            .and_then(|r| r.as_array())
            .map(|a| a.iter().filter_map(|x| x.as_str().map(|s| s.to_string())).collect())
            .unwrap_or_default();
        let empty = Map::new();
        let props = s.get("properties").and_then(|p| p.as_object()).unwrap_or(&empty);
        for (k, ps) in props {
            let req = required.contains(k);
            let include = req || (budget > 0 && g.chance(if self.boundary { 1 } else { 2 }, 3));
            if include {
                out.insert(k.clone(), self.gen(g, ps, budget - 1));
            }
        }
        for r in &required {
            if !out.contains_key(r) {
                out.insert(r.clone(), json!("undeclared-required"));
            }
        }
        // constrained keys: members keyed by strings that satisfy the key pattern
        if let Some(pat) = s.get("propertyNames").and_then(|p| p.get("pattern")).and_then(|p| p.as_str()).and_then(find_pattern) {
            let n = if budget <= 0 { 0 } else { 1 + g.below(2) };
            let max = s["propertyNames"].get("maxLength").and_then(|m| m.as_u64()).unwrap_or(u64::MAX);
            for k in pat.good.iter().filter(|k| (k.chars().count() as u64) <= max).take(n) {
                let v = match s.get("additionalProperties") {
                    Some(ap @ Value::Object(_)) => self.gen(g, ap, budget - 1),
                    _ => json!(1),
                };
                out.insert(k.to_string(), v);
            }
            return Value::Object(out);
        }
        match s.get("additionalProperties") {
            Some(Value::Bool(false)) => {}
            Some(ap @ Value::Object(_)) => {
                let n = if budget <= 0 { 0 } else { g.below(3) };
                for i in 0..n {
                    let k = format!("extra{}", i);
                    if !props.contains_key(&k) {
                        out.insert(k, self.gen(g, ap, budget - 1));
                    }
                }
            }
            _ => {
                if props.is_empty() && budget > 0 && s.get("patternProperties").is_none() && g.chance(1, 2) {
                    out.insert("anykey".into(), json!(1));
                }
            }
        }
        if let Some(Value::Object(pp)) = s.get("patternProperties") {
            for (pat, ps) in pp {
                if let Some(p) = find_pattern(pat) {
                    if g.chance(1, 2) {
                        out.insert(p.good[0].to_string(), self.gen(g, ps, budget - 1));
                    }
                }
            }
        }
        Value::Object(out)
    }
}

pub fn json_type_matches(t: &str, v: &Value) -> bool {
    match t {
        "null" => v.is_null(),
        "boolean" => v.is_boolean(),
        "integer" => v.is_i64() || v.is_u64(),
        "number" => v.is_number(),
        "string" => v.is_string(),
        "array" => v.is_array(),
        "object" => v.is_object(),
        _ => false,
    }
}

fn mentions_ref(v: &Value) -> bool {
    match v {
        Value::Object(o) => o.contains_key("$ref") || o.values().any(mentions_ref),
        Value::Array(a) => a.iter().any(mentions_ref),
        _ => false,
    }
}

/// Single-edit mutants of an instance (DESIGN §4.3(c)); each with a tag.
pub fn mutants(g: &mut G, v: &Value, limit: usize) -> Vec<(String, Value)> {
    mutants_opt(g, v, limit, true)
}

/// `nulls`: also replace scalars by null (a documented looseness for optional
/// members: they are `Option<T>` and accept null)
pub fn mutants_opt(g: &mut G, v: &Value, limit: usize, nulls: bool) -> Vec<(String, Value)> {
    let mut out: Vec<(String, Value)> = vec![];
    let mut paths: Vec<Vec<PathSeg>> = vec![];
    collect_paths(v, &mut vec![], &mut paths);
    g.shuffle(&mut paths);
    for p in paths {
        if out.len() >= limit {
            break;
        }
        let Some(node) = get(v, &p) else { continue };
        let mut edits: Vec<(String, Option<Value>)> = vec![];
        match node {
            Value::Object(o) => {
                for k in o.keys() {
                    let mut m = o.clone();
                    m.remove(k);
                    edits.push(("delete-member".into(), Some(Value::Object(m))));
                }
                let mut m = o.clone();
                m.insert("zz_undeclared".into(), json!(1));
                edits.push(("add-member".into(), Some(Value::Object(m))));
                // a member under a key no key pattern of the grammar admits
                if let Some((k, x)) = o.iter().next() {
                    let mut m = o.clone();
                    m.remove(k);
                    m.insert("Bad Key! 9".into(), x.clone());
                    edits.push(("rename-key".into(), Some(Value::Object(m))));
                }
                edits.push(("swap-type".into(), Some(json!("not-an-object"))));
            }
            Value::Array(a) => {
                if !a.is_empty() {
                    let mut b = a.clone();
                    b.pop();
                    edits.push(("arity-minus".into(), Some(Value::Array(b))));
                    let mut b = a.clone();
                    b.push(a[a.len() - 1].clone());
                    edits.push(("arity-plus".into(), Some(Value::Array(b))));
                } else {
                    edits.push(("arity-plus".into(), Some(json!([1]))));
                }
                edits.push(("swap-type".into(), Some(json!({"was": "array"}))));
            }
            Value::String(s) => {
                let mut t = s.clone();
                t.push(*g.pick(&['q', 'é', '名', '\u{1F600}']));
                edits.push(("string-longer".into(), Some(json!(t))));
                if !s.is_empty() {
                    let t: String = s.chars().take(s.chars().count() - 1).collect();
                    edits.push(("string-shorter".into(), Some(json!(t))));
                    let t: String = s.chars().map(|c| if c.is_lowercase() { c.to_uppercase().next().unwrap() } else { c.to_lowercase().next().unwrap() }).collect();
                    if &t != s {
                        edits.push(("string-case".into(), Some(json!(t))));
                    }
                }
                edits.push(("string-nonmember".into(), Some(json!("zz-not-a-member"))));
                edits.push(("swap-type".into(), Some(json!(7))));
                if nulls {
                    edits.push(("swap-null".into(), Some(Value::Null)));
                }
            }
            Value::Number(n) => {
                edits.push(("swap-type".into(), Some(json!(n.to_string()))));
                if let Some(i) = n.as_i64() {
                    edits.push(("int-other".into(), Some(json!(i.wrapping_add(1)))));
                    edits.push(("int-other".into(), Some(json!(i.wrapping_sub(1)))));
                }
                edits.push(("swap-bool".into(), Some(json!(true))));
            }
            Value::Bool(b) => {
                edits.push(("swap-type".into(), Some(json!(if *b { "true" } else { "false" }))));
                edits.push(("bool-flip".into(), Some(json!(!*b))));
            }
            Value::Null => {
                edits.push(("swap-type".into(), Some(json!(0))));
            }
        }
        g.shuffle(&mut edits);
        // the openness probe (an undeclared member) is always among the edits of an object
        if let Some(i) = edits.iter().position(|(t, _)| t == "add-member") {
            edits.swap(0, i);
        }
        for (tag, e) in edits.into_iter().take(3) {
            if let Some(e) = e {
                if let Some(m) = set(v, &p, e) {
                    if &m != v {
                        out.push((format!("mutant:{tag}"), m));
                    }
                }
            }
        }
    }
    out.truncate(limit);
    out
}

#[derive(Clone, Debug)]
pub enum PathSeg {
    K(String),
    I(usize),
}

fn collect_paths(v: &Value, cur: &mut Vec<PathSeg>, out: &mut Vec<Vec<PathSeg>>) {
    out.push(cur.clone());
    match v {
        Value::Object(o) => {
            for (k, c) in o {
                cur.push(PathSeg::K(k.clone()));
                collect_paths(c, cur, out);
                cur.pop();
            }
        }
        Value::Array(a) => {
            for (i, c) in a.iter().enumerate() {
                cur.push(PathSeg::I(i));
                collect_paths(c, cur, out);
                cur.pop();
            }
        }
        _ => {}
    }
}

fn get<'a>(v: &'a Value, p: &[PathSeg]) -> Option<&'a Value> {
    let mut cur = v;
    for s in p {
        cur = match s {
            PathSeg::K(k) => cur.get(k)?,
            PathSeg::I(i) => cur.get(*i)?,
        };
    }
    Some(cur)
}

fn set(v: &Value, p: &[PathSeg], nv: Value) -> Option<Value> {
    let mut out = v.clone();
    {
        let mut cur = &mut out;
        for s in p {
            cur = match s {
                PathSeg::K(k) => cur.get_mut(k)?,
                PathSeg::I(i) => cur.get_mut(*i)?,
            };
        }
        *cur = nv;
    }
    Some(out)
}
