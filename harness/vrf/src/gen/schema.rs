//! Schema grammars (DESIGN.md §4.2): W (wide), F (faithful), E (enforced).

use super::names::*;
use super::G;
use serde_json::{json, Map, Value};

#[derive(Clone, Debug)]
pub struct Cfg {
    pub max_depth: usize,
    pub max_defs: usize,
    /// names from the odd alphabet (keywords, unicode, punctuation)
    pub odd_names: usize, // chance out of 100
    /// W-only constructs (not, non-exclusive anyOf, const, multi-type, numeric
    /// bounds, array length bounds, if/then/else-free but loose things)
    pub wide: bool,
    /// only constructs whose constraints typify represents in the type
    pub enforced: bool,
    pub defaults: usize, // chance out of 100 of attaching a default
    pub recursion: bool,
    pub titles: bool,
    /// allow {} / true schemas (serde_json::Value)
    pub any: bool,
    pub int_formats: bool,
    pub str_formats: bool,
    pub floats: bool,
}

impl Cfg {
    pub fn wide() -> Cfg {
        Cfg {
            max_depth: 3,
            max_defs: 5,
            odd_names: 4,
            wide: true,
            enforced: false,
            defaults: 10,
            recursion: true,
            titles: true,
            any: true,
            int_formats: true,
            str_formats: true,
            floats: true,
        }
    }
    pub fn faithful() -> Cfg {
        Cfg {
            max_depth: 3,
            max_defs: 4,
            odd_names: 0,
            wide: false,
            enforced: false,
            defaults: 0,
            recursion: true,
            titles: false,
            any: true,
            int_formats: true,
            str_formats: true,
            floats: true,
        }
    }
    pub fn enforced() -> Cfg {
        Cfg {
            max_depth: 2,
            max_defs: 3,
            odd_names: 0,
            wide: false,
            enforced: true,
            defaults: 0,
            recursion: false,
            titles: false,
            any: false,
            int_formats: false,
            str_formats: false,
            floats: false,
        }
    }
}

/// Patterns from the portable regex subset on which python `re.search` and
/// ECMAScript (regress) agree, each with a generator of matching strings and
/// some non-matching strings.
pub struct Pat {
    pub re: &'static str,
    pub good: &'static [&'static str],
    pub bad: &'static [&'static str],
}

pub const PATTERNS: &[Pat] = &[
    Pat { re: "^[a-z]+$", good: &["a", "abc", "zzzzzz", "qwertyuiop"], bad: &["", "A", "a1", "é", "a b"] },
    Pat { re: "^[A-Z][a-z]*$", good: &["A", "Abc", "Zed"], bad: &["", "a", "AB", "aB"] },
    Pat { re: "^[0-9]{3}$", good: &["000", "123", "999"], bad: &["12", "1234", "12a", ""] },
    Pat { re: "^a+b?$", good: &["a", "ab", "aaab", "aaaa"], bad: &["", "b", "abb", "ba"] },
    Pat { re: "^(foo|bar)$", good: &["foo", "bar"], bad: &["", "foobar", "fo", "baz"] },
    Pat { re: "x", good: &["x", "axb", "xxx", "éx"], bad: &["", "abc", "X"] },
    Pat { re: "^é+$", good: &["é", "éé", "ééé"], bad: &["", "e", "éa"] },
    Pat { re: "^.{2,4}$", good: &["ab", "abc", "abcd", "éé", "名名名"], bad: &["", "a", "abcde", "é"] },
    Pat { re: "^[a-c]{1,3}[0-9]?$", good: &["a", "abc", "ab1", "c9"], bad: &["", "abcd", "a11", "d"] },
    Pat { re: "^[^ ]+$", good: &["a", "a-b", "名"], bad: &["", "a b", " "] },
];

pub fn pattern(g: &mut G) -> &'static Pat {
    &PATTERNS[g.below(PATTERNS.len())]
}

pub fn find_pattern(re: &str) -> Option<&'static Pat> {
    PATTERNS.iter().find(|p| p.re == re)
}

pub const STR_FORMATS: &[&str] = &["uuid", "date", "date-time", "ip", "ipv4", "ipv6"];
pub const INT_FORMATS: &[&str] = &["int8", "uint8", "int16", "uint16", "int32", "uint32", "int64", "uint64"];

pub struct Ctx {
    pub cfg: Cfg,
    pub defs: Vec<String>,
    /// definitions that may be referenced from the position being generated
    /// (all of them when recursion is allowed; only later ones otherwise)
    pub visible_from: usize,
    /// prefix for `$ref`
    pub ref_prefix: String,
    /// titles are unique within a document (two schemas resolving to one
    /// type name is a known finding, avoided by construction)
    pub title_seq: std::cell::Cell<usize>,
}

impl Ctx {
    pub fn refs(&self) -> &[String] {
        &self.defs[self.visible_from.min(self.defs.len())..]
    }
}

fn maybe_meta(g: &mut G, c: &Ctx, mut s: Map<String, Value>) -> Value {
    if c.cfg.titles && g.chance(1, 12) {
        s.insert("description".into(), json!(g.pick(&["a thing", "multi\nline", "quote \" and \\ backslash", "*/ end", "{braces}"]).to_string()));
    }
    Value::Object(s)
}

pub fn string_schema(g: &mut G, c: &Ctx) -> Value {
    let mut s = Map::new();
    s.insert("type".into(), json!("string"));
    match g.weighted(&[5, if c.cfg.str_formats { 3 } else { 0 }, 4, if c.cfg.wide { 1 } else { 0 }]) {
        0 => {}
        1 => {
            s.insert("format".into(), json!(g.pick(STR_FORMATS)));
        }
        2 => {
            // constraints
            let k = g.below(4);
            if k == 0 || k == 3 {
                let p = pattern(g);
                s.insert("pattern".into(), json!(p.re));
            }
            if k == 1 || k == 3 || k == 2 {
                let lo = g.below(4);
                if g.chance(2, 3) {
                    s.insert("minLength".into(), json!(lo));
                }
                if g.chance(2, 3) || k == 2 {
                    s.insert("maxLength".into(), json!(lo + g.below(5)));
                }
            }
        }
        _ => {
            s.insert("format".into(), json!(g.pick(&["email", "hostname", "uri", "binary", "password", "made-up"])));
        }
    }
    maybe_meta(g, c, s)
}

pub fn integer_schema(g: &mut G, c: &Ctx) -> Value {
    let mut s = Map::new();
    s.insert("type".into(), json!("integer"));
    if c.cfg.int_formats && g.chance(1, 2) {
        s.insert("format".into(), json!(g.pick(INT_FORMATS)));
    }
    if c.cfg.wide && g.chance(1, 4) {
        let bounds: &[i64] = &[0, 1, -1, 2, 100, 127, 128, 255, 256, -128, 65535, 32767, -32768, 4294967295, 2147483647, -2147483648];
        if g.chance(1, 2) {
            s.insert("minimum".into(), json!(g.pick(bounds)));
        }
        if g.chance(1, 2) {
            s.insert("maximum".into(), json!(g.pick(bounds)));
        }
        if g.chance(1, 8) {
            s.insert("multipleOf".into(), json!(2));
        }
    } else if !c.cfg.enforced && g.chance(1, 6) {
        // lower bound 0 / 1: a documented selection rule (uint / NonZero)
        let m = g.below(2) as i64;
        s.insert("minimum".into(), json!(m));
        // the same bound stated a second time, exclusively (the inclusive one binds)
        if g.chance(1, 3) {
            s.insert("exclusiveMinimum".into(), json!(m - 1));
        }
    }
    maybe_meta(g, c, s)
}

pub fn number_schema(g: &mut G, c: &Ctx) -> Value {
    let mut s = Map::new();
    s.insert("type".into(), json!("number"));
    if g.chance(1, 3) {
        s.insert("format".into(), json!(g.pick(&["float", "double"])));
    }
    maybe_meta(g, c, s)
}

pub fn string_enum(g: &mut G, c: &Ctx) -> Value {
    let n = 1 + g.below(4);
    let mut vals: Vec<String> = vec![];
    let mut idents = std::collections::BTreeSet::new();
    let mut tries = 0;
    while vals.len() < n && tries < 50 {
        tries += 1;
        let v = if g.below(100) < c.cfg.odd_names { odd_name(g) } else { g.pick(ENUM_VALUES).to_string() };
        if vals.contains(&v) {
            continue;
        }
        // keep values collision free after sanitisation (collisions are C08's subject)
        if !idents.insert(sanitize_like(&v, true)) {
            super::excluded("sanitised-name-collision", 1);
            continue;
        }
        vals.push(v);
    }
    let mut s = Map::new();
    if g.chance(4, 5) || c.cfg.enforced {
        s.insert("type".into(), json!("string"));
    }
    s.insert("enum".into(), json!(vals));
    maybe_meta(g, c, s)
}

pub fn typed_enum(g: &mut G, c: &Ctx) -> Value {
    // boolean enums are not generated: typify ignores `enum` on booleans
    // (known finding KF-005)
    match if c.cfg.wide { g.below(3) } else { [0usize, 2, 3][g.below(3)] } {
        3 => {
            // members beyond i64::MAX under format uint64
            let pool: [u64; 6] = [0, 1, 255, 9223372036854775807, 9223372036854775808, 18446744073709551615];
            let mut v: Vec<u64> = pool.iter().cloned().filter(|_| g.chance(1, 2)).collect();
            if v.is_empty() {
                v.push(18446744073709551615);
            }
            json!({"type": "integer", "format": "uint64", "enum": v})
        }
        0 => {
            let mut v: Vec<i64> = (0..1 + g.below(4)).map(|_| g.range(-5, 300)).collect();
            v.sort();
            v.dedup();
            json!({"type": "integer", "enum": v})
        }
        1 => json!({"type": "boolean", "enum": [g.chance(1, 2)]}),
        _ => {
            let mut v: Vec<f64> = (0..1 + g.below(3)).map(|_| g.range(-8, 8) as f64 + 0.5).collect();
            v.sort_by(|a, b| a.partial_cmp(b).unwrap());
            v.dedup();
            json!({"type": "number", "enum": v})
        }
    }
}

pub fn leaf(g: &mut G, c: &Ctx) -> Value {
    let w_ref = if c.refs().is_empty() { 0 } else { 6 };
    let cfg = &c.cfg;
    match g.weighted(&[
        6,                                  // string
        5,                                  // integer
        if cfg.floats { 2 } else { 0 },     // number
        3,                                  // boolean
        4,                                  // string enum
        if cfg.enforced || cfg.wide { 2 } else { 1 }, // typed enum
        w_ref,                              // $ref
        if cfg.any { 1 } else { 0 },        // any
        if cfg.wide { 1 } else { 0 },       // null
        if cfg.wide { 1 } else { 0 },       // const
        if cfg.enforced { 2 } else { 0 },   // not:{enum} deny list
    ]) {
        0 => string_schema(g, c),
        1 => integer_schema(g, c),
        2 => number_schema(g, c),
        3 => json!({"type": "boolean"}),
        4 => string_enum(g, c),
        5 => typed_enum(g, c),
        6 => json!({"$ref": format!("{}{}", c.ref_prefix, g.pick(c.refs()))}),
        7 => {
            if g.chance(1, 2) {
                json!({})
            } else {
                json!(true)
            }
        }
        8 => json!({"type": "null"}),
        9 => {
            if g.chance(1, 2) {
                json!({"const": g.pick(ENUM_VALUES)})
            } else {
                json!({"type": "integer", "const": g.range(0, 9)})
            }
        }
        _ => {
            // deny list
            let vals = vec![g.pick(ENUM_VALUES).to_string(), g.pick(ENUM_VALUES).to_string()];
            if g.chance(2, 3) {
                json!({"type": "string", "not": {"enum": vals}})
            } else {
                json!({"not": {"enum": vals}})
            }
        }
    }
}

pub fn prop_names(g: &mut G, c: &Ctx, n: usize) -> Vec<String> {
    if g.below(100) < c.cfg.odd_names {
        // names that collide after sanitisation are C08's subject (known
        // finding there); here they are avoided by construction and counted
        let mut ex = 0;
        let v = odd_names_distinct(g, n, &mut ex);
        super::excluded("sanitised-name-collision", ex);
        v.into_iter().filter(|s| !s.is_empty()).collect()
    } else {
        benign_props(g, n)
    }
}

pub fn object_schema(g: &mut G, c: &Ctx, depth: usize) -> Value {
    let n = g.weighted(&[1, 3, 4, 3, 1]);
    let names = prop_names(g, c, n);
    let mut props = Map::new();
    for name in &names {
        props.insert(name.clone(), schema(g, c, depth + 1));
    }
    let mut required: Vec<String> = names.iter().filter(|_| g.chance(1, 2)).cloned().collect();
    if c.cfg.wide && g.chance(1, 30) {
        required.push("undeclared".into());
    }
    let mut s = Map::new();
    s.insert("type".into(), json!("object"));
    if !props.is_empty() || g.chance(1, 2) {
        s.insert("properties".into(), Value::Object(props));
    }
    if !required.is_empty() {
        s.insert("required".into(), json!(required));
    }
    match g.weighted(&[4, 1, 3, if c.cfg.enforced { 0 } else { 2 }]) {
        0 => {}
        1 => {
            s.insert("additionalProperties".into(), json!(true));
        }
        2 => {
            s.insert("additionalProperties".into(), json!(false));
        }
        _ => {
            s.insert("additionalProperties".into(), schema(g, c, depth + 1));
        }
    }
    if c.cfg.wide && g.chance(1, 25) {
        s.insert("patternProperties".into(), json!({"^x-": {"type": "string"}}));
    }
    if c.cfg.wide && g.chance(1, 30) {
        s.insert("propertyNames".into(), json!({"pattern": "^[a-z]+$"}));
    }
    if c.cfg.wide && g.chance(1, 30) {
        s.insert("minProperties".into(), json!(1));
    }
    maybe_meta(g, c, s)
}

pub fn map_schema(g: &mut G, c: &Ctx, depth: usize) -> Value {
    let mut s = Map::new();
    s.insert("type".into(), json!("object"));
    s.insert("additionalProperties".into(), schema(g, c, depth + 1));
    Value::Object(s)
}

/// A map whose keys are constrained through `propertyNames` (the key type becomes a
/// constrained string newtype); values unconstrained, or typed.
pub fn keyed_map_schema(g: &mut G, c: &Ctx, depth: usize) -> Value {
    let p = pattern(g);
    let mut names = json!({"pattern": p.re});
    if g.chance(1, 4) {
        names["maxLength"] = json!(12);
    }
    let mut s = json!({"type": "object", "propertyNames": names});
    match g.below(4) {
        0 => s["additionalProperties"] = json!(true),
        1 => s["additionalProperties"] = leaf(g, c),
        _ => {}
    }
    let _ = depth;
    s
}

pub fn array_schema(g: &mut G, c: &Ctx, depth: usize) -> Value {
    let mut s = Map::new();
    s.insert("type".into(), json!("array"));
    match g.weighted(&[5, 3, 2, if c.cfg.enforced { 0 } else { 1 }]) {
        0 => {
            s.insert("items".into(), schema(g, c, depth + 1));
            if c.cfg.wide && g.chance(1, 5) {
                s.insert("minItems".into(), json!(g.below(3)));
            }
            if c.cfg.wide && g.chance(1, 8) {
                s.insert("maxItems".into(), json!(2 + g.below(3)));
            }
        }
        1 => {
            // tuple
            let n = 1 + g.below(if c.cfg.wide { 4 } else { 3 });
            let items: Vec<Value> = (0..n).map(|_| schema(g, c, depth + 1)).collect();
            s.insert("items".into(), json!(items));
            s.insert("minItems".into(), json!(n));
            s.insert("maxItems".into(), json!(n));
            if g.chance(1, 2) {
                s.insert("additionalItems".into(), json!(false));
            }
        }
        2 => {
            // fixed length array
            let n = 1 + g.below(4);
            s.insert("items".into(), schema(g, c, depth + 1));
            s.insert("minItems".into(), json!(n));
            s.insert("maxItems".into(), json!(n));
        }
        _ => {
            // set (items must be hashable: scalars only)
            let item = match g.below(3) {
                0 => json!({"type": "string"}),
                1 => json!({"type": "integer"}),
                _ => string_enum(g, c),
            };
            s.insert("items".into(), item);
            s.insert("uniqueItems".into(), json!(true));
        }
    }
    maybe_meta(g, c, s)
}

pub fn nullable(g: &mut G, c: &Ctx, depth: usize) -> Value {
    match g.below(3) {
        0 => {
            // type: [T, null]
            let t = *g.pick(&["string", "integer", "boolean", "object", "array"]);
            match t {
                "object" => {
                    let mut o = object_schema(g, c, depth + 1);
                    o["type"] = json!(["object", "null"]);
                    o
                }
                "array" => json!({"type": ["array", "null"], "items": schema(g, c, depth + 1)}),
                t => json!({"type": [t, "null"]}),
            }
        }
        1 => json!({"oneOf": [schema(g, c, depth + 1), {"type": "null"}]}),
        _ => json!({"anyOf": [schema(g, c, depth + 1), {"type": "null"}]}),
    }
}

/// A schema that yields no *named* generated type (scalars, references,
/// arrays/maps of those): used where typify derives the same type name for
/// different inline schemas (known finding KF-001), so the generator stays
/// clear of that region by construction.
pub fn schema_unnamed(g: &mut G, c: &Ctx, depth: usize) -> Value {
    let scalar = |g: &mut G| -> Value {
        let w_ref = if c.refs().is_empty() { 0 } else { 3 };
        match g.weighted(&[3, 3, if c.cfg.floats { 1 } else { 0 }, 2, w_ref, if c.cfg.str_formats { 1 } else { 0 }]) {
            0 => json!({"type": "string"}),
            1 => json!({"type": "integer"}),
            2 => json!({"type": "number"}),
            3 => json!({"type": "boolean"}),
            4 => json!({"$ref": format!("{}{}", c.ref_prefix, g.pick(c.refs()))}),
            _ => json!({"type": "string", "format": g.pick(STR_FORMATS)}),
        }
    };
    if depth >= c.cfg.max_depth || g.chance(2, 3) {
        return scalar(g);
    }
    match g.below(if c.cfg.enforced { 1 } else { 3 }) {
        0 => json!({"type": "array", "items": scalar(g)}),
        1 => json!({"type": "object", "additionalProperties": scalar(g)}),
        _ => json!({"type": ["string", "null"]}),
    }
}

fn tag_values(g: &mut G, n: usize) -> Vec<String> {
    let mut v: Vec<String> = vec![];
    let mut idents = std::collections::BTreeSet::new();
    while v.len() < n {
        let s = g.pick(ENUM_VALUES).to_string();
        if idents.insert(heck_pascal(&s)) {
            v.push(s);
        }
    }
    v
}

fn closed_object(g: &mut G, c: &Ctx, depth: usize, fixed: Vec<(String, Value)>, close: bool, unnamed: bool) -> Value {
    // closed tag-only variants of internally tagged unions: known finding KF-006
    let n = if close && unnamed && !fixed.is_empty() { 1 + g.below(2) } else { g.below(3) };
    let taken: Vec<String> = fixed.iter().map(|(k, _)| heck_snake(k)).collect();
    let names: Vec<String> = benign_props(g, n + 2)
        .into_iter()
        .filter(|p| !taken.contains(&heck_snake(p)))
        .take(n)
        .collect();
    let mut props = Map::new();
    let mut required: Vec<String> = vec![];
    for (k, v) in fixed {
        required.push(k.clone());
        props.insert(k, v);
    }
    for name in names {
        props.insert(name.clone(), if unnamed { schema_unnamed(g, c, depth + 1) } else { schema(g, c, depth + 1) });
        if g.chance(1, 2) {
            required.push(name);
        }
    }
    let mut s = Map::new();
    s.insert("type".into(), json!("object"));
    s.insert("properties".into(), Value::Object(props));
    s.insert("required".into(), json!(required));
    if close {
        s.insert("additionalProperties".into(), json!(false));
    }
    Value::Object(s)
}

/// oneOf in one of the four serde tagging shapes or with disjoint branches.
pub fn one_of(g: &mut G, c: &Ctx, depth: usize) -> Value {
    let n = 2 + g.below(2);
    let close = g.chance(1, 2);
    let shape = g.below(5);
    let wrapper_shape = shape == 0 || shape == 2;
    // key-disjoint branches stay closed: open single-property objects are read
    // as externally tagged variants (known finding KF-003)
    let close = close || shape == 4;
    let branches: Vec<Value> = match shape {
        0 => {
            // externally tagged: a string enum for unit variants + single-member objects
            let tags = tag_values(g, n + 1);
            let mut b = vec![json!({"type": "string", "enum": [tags[0].clone()]})];
            for t in &tags[1..] {
                let mut props = Map::new();
                props.insert(t.clone(), schema(g, c, depth + 1));
                b.push(json!({"type": "object", "properties": props, "required": [t], "additionalProperties": false}));
            }
            b
        }
        1 => {
            // internally tagged
            let tags = tag_values(g, n);
            let tagname = g.pick(&["type", "kind", "tag", "t"]).to_string();
            // one variant may carry a second constant member besides the tag (it is data: the
            // other variants do not have it, so it is no tag candidate)
            let extra_const = n >= 2 && g.chance(1, 3);
            tags.iter()
                .enumerate()
                .map(|(i, t)| {
                    let mut fixed = vec![(tagname.clone(), json!({"type": "string", "enum": [t]}))];
                    if extra_const && i == 0 {
                        fixed.push(("encoding_const".to_string(), json!({"type": "string", "enum": ["utf8"]})));
                    }
                    closed_object(g, c, depth, fixed, close, true)
                })
                .collect()
        }
        2 => {
            // adjacently tagged
            let tags = tag_values(g, n);
            tags.iter()
                .enumerate()
                .map(|(i, t)| {
                    if i == 0 && g.chance(1, 2) {
                        let mut w = json!({"type": "object", "properties": {"tag": {"type": "string", "enum": [t]}}, "required": ["tag"]});
                        // this one wrapper may be closed (that says nothing about the other alternatives)
                        if !c.cfg.enforced && g.chance(2, 3) {
                            w["additionalProperties"] = json!(false);
                        }
                        w
                    } else {
                        let content = if g.chance(1, 3) {
                            { let cl = g.chance(1, 2); closed_object(g, c, depth + 1, vec![], cl, true) }
                        } else {
                            schema_unnamed(g, c, depth + 1)
                        };
                        // wrappers stay open: their additionalProperties:false is not
                        // represented (known finding KF-007)
                        json!({"type": "object", "properties": {"tag": {"type": "string", "enum": [t]}, "content": content}, "required": ["tag", "content"]})
                    }
                })
                .collect()
        }
        3 => {
            // JSON-type-disjoint branches
            let mut kinds = vec!["string", "integer", "boolean", "object", "array"];
            g.shuffle(&mut kinds);
            kinds
                .into_iter()
                .take(n)
                .map(|k| match k {
                    "string" => string_schema(g, c),
                    "integer" => json!({"type": "integer"}),
                    "boolean" => json!({"type": "boolean"}),
                    "object" => object_schema(g, c, depth + 1),
                    _ => json!({"type": "array", "items": schema(g, c, depth + 1)}),
                })
                .collect()
        }
        _ => {
            // required-key-disjoint closed objects
            let keys = benign_props(g, n);
            keys.iter()
                .map(|k| { let l = leaf(g, c); closed_object(g, c, depth, vec![(k.clone(), l)], true, false) })
                .map(|mut o| {
                    // only the distinguishing key is required; others optional but closed
                    o["additionalProperties"] = json!(false);
                    o
                })
                .collect()
        }
    };
    let mut branches = branches;
    // KF-002 (one closed variant closes every variant of the enum) is avoided
    // by construction: struct-like variant payloads of one union are either
    // all closed or all open.
    let mut changed = 0;
    // the enforced grammar (invalid => rejected) keeps mixed open/closed variants:
    // KF-002 only over-rejects, which is not that property's direction
    let skip_uniform = c.cfg.enforced;
    for b in branches.iter_mut() {
        if skip_uniform {
            // give each struct-like variant its own closedness
            if !wrapper_shape && shape != 4 {
                if let Some(o) = b.as_object_mut() {
                    if o.get("properties").is_some() {
                        if g.chance(1, 2) {
                            o.insert("additionalProperties".into(), json!(false));
                        } else {
                            o.remove("additionalProperties");
                        }
                    }
                }
            }
            continue;
        }
        if wrapper_shape {
            // the {tag: payload} / {tag, content} wrapper objects keep the
            // closed form serde/schemars give them; only payloads are aligned
            if let Some(ps) = b.get_mut("properties").and_then(|p| p.as_object_mut()) {
                for (_, p) in ps.iter_mut() {
                    changed += uniform_closedness(p, close, 1);
                }
            }
        } else {
            changed += uniform_closedness(b, close, 0);
        }
    }
    super::excluded("mixed-open-closed-variants", changed);
    json!({"oneOf": branches})
}

/// Set the closedness of the struct-like objects a union branch consists of
/// (the branch itself and the payload one level below).
fn uniform_closedness(v: &mut Value, close: bool, depth: usize) -> u64 {
    let mut n = 0;
    // a conjunction of objects is an open struct that cannot simply be closed: inside a closed
    // union it is replaced (same known finding, KF-002)
    if close && v.get("allOf").is_some() {
        *v = json!({"type": "string"});
        return 1;
    }
    let Some(o) = v.as_object_mut() else { return 0 };
    let structlike = o.get("type") == Some(&json!("object")) && o.get("properties").and_then(|p| p.as_object()).is_some();
    if structlike {
        let is_closed = o.get("additionalProperties") == Some(&json!(false));
        if is_closed != close {
            if close {
                o.insert("additionalProperties".into(), json!(false));
            } else {
                o.remove("additionalProperties");
            }
            n += 1;
        }
        if depth < 1 {
            if let Some(ps) = o.get_mut("properties").and_then(|p| p.as_object_mut()) {
                for (_, p) in ps.iter_mut() {
                    n += uniform_closedness(p, close, depth + 1);
                }
            }
        }
    }
    n
}

pub fn all_of_objects(g: &mut G, c: &Ctx, depth: usize) -> Value {
    let n = 2 + g.below(2);
    let names = benign_props(g, n * 2);
    let mut branches = vec![];
    for i in 0..n {
        let mut props = Map::new();
        let mine = &names[(i * 2).min(names.len())..((i * 2 + 2).min(names.len()))];
        for p in mine {
            props.insert(p.clone(), leaf(g, c));
        }
        let req: Vec<String> = mine.iter().filter(|_| g.chance(1, 2)).cloned().collect();
        let mut o = json!({"type": "object", "properties": props});
        if !req.is_empty() {
            o["required"] = json!(req);
        }
        branches.push(o);
    }
    // a property declared on both sides: a JSON type on one, an enumeration of literals of that
    // type on the other (together: a typed enumeration)
    if !c.cfg.enforced && g.chance(1, 3) {
        let (ty, lits) = match g.below(3) {
            0 => ("number", json!([1, 1.5, 2])),
            1 => ("integer", json!([3, 5, 8])),
            _ => ("string", json!(["left", "right"])),
        };
        let (i, j) = if g.chance(1, 2) { (0, 1) } else { (1, 0) };
        branches[i]["properties"]["shared_scale"] = json!({"type": ty});
        branches[j]["properties"]["shared_scale"] = json!({"enum": lits});
        if g.chance(1, 2) {
            let mut r: Vec<Value> = branches[i]["required"].as_array().cloned().unwrap_or_default();
            r.push(json!("shared_scale"));
            branches[i]["required"] = json!(r);
        }
    }
    let _ = depth;
    json!({"allOf": branches})
}

/// allOf branches inside F: objects whose properties are disjoint, except that one
/// property may carry `{type: T}` on one side and `{enum: literals of T}` on the other.
/// Returns the branches with such a pair rewritten to the typed enumeration it denotes.
fn allof_branches_normalised(bs: &[Value]) -> Option<Vec<Value>> {
    let mut out: Vec<Value> = bs.to_vec();
    let mut owner: std::collections::BTreeMap<String, Vec<usize>> = Default::default();
    for (i, b) in bs.iter().enumerate() {
        for k in b.get("properties").and_then(|p| p.as_object()).map(|p| p.keys().cloned().collect::<Vec<_>>()).unwrap_or_default() {
            owner.entry(k).or_default().push(i);
        }
    }
    for (k, idx) in owner {
        if idx.len() == 1 {
            continue;
        }
        if idx.len() != 2 {
            return None;
        }
        let a = &bs[idx[0]]["properties"][&k];
        let b = &bs[idx[1]]["properties"][&k];
        let (t, e) = if a.get("type").is_some() { (a, b) } else { (b, a) };
        let (Some(to), Some(eo)) = (t.as_object(), e.as_object()) else { return None };
        if to.len() != 1 || eo.len() != 1 {
            return None;
        }
        let (Some(ty), Some(lits)) = (to.get("type").and_then(|x| x.as_str()), eo.get("enum").and_then(|x| x.as_array())) else { return None };
        let conforms = |v: &Value| match ty {
            "number" => v.is_number(),
            "integer" => v.is_i64(),
            "string" => v.is_string(),
            _ => false,
        };
        if lits.is_empty() || !lits.iter().all(conforms) {
            return None;
        }
        let merged = json!({"type": ty, "enum": lits});
        out[idx[0]]["properties"][&k] = merged.clone();
        out[idx[1]]["properties"].as_object_mut().unwrap().remove(&k);
        // `required` follows the property
        let was_required = out[idx[1]].get("required").and_then(|r| r.as_array()).map(|r| r.contains(&json!(k))).unwrap_or(false);
        if was_required {
            let rest: Vec<Value> = out[idx[1]]["required"].as_array().unwrap().iter().filter(|x| **x != json!(k)).cloned().collect();
            if rest.is_empty() {
                out[idx[1]].as_object_mut().unwrap().remove("required");
            } else {
                out[idx[1]]["required"] = json!(rest);
            }
            let mut r0: Vec<Value> = out[idx[0]].get("required").and_then(|r| r.as_array()).cloned().unwrap_or_default();
            if !r0.contains(&json!(k)) {
                r0.push(json!(k));
            }
            out[idx[0]]["required"] = json!(r0);
        }
    }
    Some(out)
}

/// A schema at `depth`.
pub fn schema(g: &mut G, c: &Ctx, depth: usize) -> Value {
    if depth >= c.cfg.max_depth {
        return leaf(g, c);
    }
    let cfg = &c.cfg;
    let mut v = match g.weighted(&[
        8,                               // leaf
        6,                               // object
        if cfg.enforced { 0 } else { 2 }, // map
        4,                               // array
        if cfg.enforced { 0 } else { 3 }, // nullable
        3,                               // oneOf
        if cfg.enforced { 0 } else { 1 }, // allOf of objects
        if cfg.wide { 2 } else { 0 },    // wide-only combinators
        1,                               // map with constrained keys
    ]) {
        0 => leaf(g, c),
        1 => object_schema(g, c, depth),
        2 => map_schema(g, c, depth),
        3 => array_schema(g, c, depth),
        4 => nullable(g, c, depth),
        5 => one_of(g, c, depth),
        6 => all_of_objects(g, c, depth),
        7 => wide_only(g, c, depth),
        _ => keyed_map_schema(g, c, depth),
    };
    if cfg.titles && g.chance(1, 15) {
        if let Some(o) = v.as_object_mut() {
            let n = c.title_seq.get();
            c.title_seq.set(n + 1);
            o.insert("title".into(), json!(format!("{}{}", g.pick(&["Titled", "Other Title ", "t"]), n)));
        }
    }
    v
}

fn wide_only(g: &mut G, c: &Ctx, depth: usize) -> Value {
    // anyOf over (possibly recursive) references: non-exclusive object alternatives become
    // a struct of flattened optional members
    if c.refs().len() >= 2 && g.chance(1, 4) {
        let a = g.pick(c.refs()).clone();
        let b = g.pick(c.refs()).clone();
        if a != b {
            return json!({"anyOf": [{"$ref": format!("{}{}", c.ref_prefix, a)}, {"$ref": format!("{}{}", c.ref_prefix, b)}]});
        }
    }
    match g.below(8) {
        0 => json!({"not": leaf(g, c)}),
        1 => json!({"not": {"enum": [g.pick(ENUM_VALUES), g.pick(ENUM_VALUES)]}}),
        2 => json!({"type": "string", "not": {"enum": [g.pick(ENUM_VALUES)]}}),
        3 => json!({"anyOf": not_both_null(schema(g, c, depth + 1), schema(g, c, depth + 1))}),
        4 => {
            let mut ts = vec!["string", "integer", "boolean", "null", "number", "array", "object"];
            g.shuffle(&mut ts);
            let k = 2 + g.below(3);
            json!({"type": ts[..k].to_vec()})
        }
        5 => {
            // conjunctions of enum restrictions with structured types yield an
            // enum-constrained newtype over a type without PartialEq (known
            // finding KF-009): branches are objects or references here
            let a = if !c.refs().is_empty() && g.chance(1, 3) { json!({"$ref": format!("{}{}", c.ref_prefix, g.pick(c.refs()))}) } else { object_schema(g, c, depth + 1) };
            let mut b = object_schema(g, c, depth + 1);
            // both sides end up in one struct: names that differ only in case / separators would
            // collide there (known finding KF-011) - dropped from the second side, and counted
            let taken: Vec<String> = a.get("properties").and_then(|p| p.as_object()).map(|p| p.keys().map(|k| heck_snake(k)).collect()).unwrap_or_default();
            let clash: Vec<String> = b.get("properties").and_then(|p| p.as_object()).map(|p| p.keys().filter(|k| taken.contains(&heck_snake(k)) && a["properties"].get(k.as_str()).is_none()).cloned().collect()).unwrap_or_default();
            for k in &clash {
                b["properties"].as_object_mut().unwrap().remove(k);
                if let Some(r) = b.get_mut("required").and_then(|r| r.as_array_mut()) {
                    r.retain(|x| x != &json!(k));
                }
            }
            super::excluded("sanitised-name-collision", clash.len() as u64);
            json!({"allOf": [a, b]})
        }
        6 => json!({"oneOf": not_both_null(schema(g, c, depth + 1), schema(g, c, depth + 1))}),
        _ => json!({"enum": [g.pick(ENUM_VALUES), g.range(0, 5), null]}),
    }
}

/// A document: definitions plus (optionally) a titled root.
pub fn document(g: &mut G, cfg: &Cfg) -> Value {
    let ndefs = 1 + g.below(cfg.max_defs);
    let mut names: Vec<String> = DEF_NAMES.iter().map(|s| s.to_string()).collect();
    g.shuffle(&mut names);
    names.truncate(ndefs);
    names.sort();
    if g.below(100) < cfg.odd_names {
        let k = g.below(names.len());
        names[k] = odd_name(g);
        names.sort();
        names.dedup();
    }
    let mut defs = Map::new();
    let title_seq = std::cell::Cell::new(0usize);
    for (i, name) in names.iter().enumerate() {
        let c = Ctx {
            cfg: cfg.clone(),
            defs: names.clone(),
            visible_from: if cfg.recursion { 0 } else { i + 1 },
            ref_prefix: "#/definitions/".into(),
            title_seq: title_seq.clone(),
        };
        // top-level definitions are mostly structured
        let s = if g.chance(2, 3) {
            match g.below(4) {
                0 | 1 => object_schema(g, &c, 0),
                2 => one_of(g, &c, 0),
                _ => schema(g, &c, 0),
            }
        } else {
            schema(g, &c, 1)
        };
        defs.insert(name.clone(), s);
    }
    break_alias_cycles(&mut defs);
    if cfg.wide {
        let n = drop_allof_name_collisions(&mut defs);
        super::excluded("sanitised-name-collision", n);
    }
    let mut doc = Map::new();
    doc.insert("$schema".into(), json!("http://json-schema.org/draft-07/schema#"));
    doc.insert("definitions".into(), Value::Object(defs));
    if g.chance(1, 3) {
        let c = Ctx { cfg: cfg.clone(), defs: names.clone(), visible_from: 0, ref_prefix: "#/definitions/".into(), title_seq: title_seq.clone() };
        if let Value::Object(root) = object_schema(g, &c, 1) {
            for (k, v) in root {
                doc.insert(k, v);
            }
            doc.insert("title".into(), json!("RootType"));
            // the root may contain itself ("$ref": "#"), by value or behind a container
            if cfg.wide && g.chance(1, 3) {
                let me = json!({"$ref": "#"});
                let member = match g.below(4) {
                    0 => me,
                    1 => json!({"oneOf": [me, {"type": "null"}]}),
                    2 => json!({"type": "array", "items": me}),
                    _ => json!({"type": "array", "items": [me, {"type": "integer"}], "minItems": 2, "maxItems": 2}),
                };
                if let Some(p) = doc.entry("properties").or_insert_with(|| json!({})).as_object_mut() {
                    p.insert("again".into(), member);
                }
            }
        }
    }
    Value::Object(doc)
}

/// The members of an allOf end up in one struct; property names of different members that
/// sanitise to the same identifier (`kind` / `Kind`) collide there (known finding KF-011).
/// Later members lose such properties; references are looked through one level.
fn drop_allof_name_collisions(defs: &mut Map<String, Value>) -> u64 {
    let snapshot = defs.clone();
    let names_of = |m: &Value| -> Vec<String> {
        let target = match m.get("$ref").and_then(|r| r.as_str()).and_then(|r| r.strip_prefix("#/definitions/")) {
            Some(n) => snapshot.get(n).cloned().unwrap_or(Value::Null),
            None => m.clone(),
        };
        let mut v: Vec<String> = target.get("properties").and_then(|p| p.as_object()).map(|p| p.keys().cloned().collect()).unwrap_or_default();
        v.extend(target.get("required").and_then(|r| r.as_array()).map(|r| r.iter().filter_map(|x| x.as_str().map(|s| s.to_string())).collect::<Vec<_>>()).unwrap_or_default());
        v
    };
    fn walk(v: &mut Value, names_of: &dyn Fn(&Value) -> Vec<String>, n: &mut u64) {
        match v {
            Value::Object(o) => {
                if let Some(Value::Array(members)) = o.get_mut("allOf") {
                    let mut seen: Vec<(String, String)> = vec![]; // (identifier, name)
                    let mut shared: std::collections::BTreeMap<String, Value> = Default::default();
                    for m in members.iter_mut() {
                        let mine = names_of(m);
                        let clash: Vec<String> = mine.iter().filter(|k| seen.iter().any(|(id, name)| id == &heck_snake(k) && name != *k)).cloned().collect();
                        if m.get("$ref").is_some() && !clash.is_empty() {
                            // a referenced member cannot be edited here: it is replaced
                            *m = json!({"type": "object"});
                            *n += 1;
                        }
                        if m.get("$ref").is_none() {
                            for k in &clash {
                                if let Some(p) = m.get_mut("properties").and_then(|p| p.as_object_mut()) {
                                    p.remove(k);
                                }
                                if let Some(r) = m.get_mut("required").and_then(|r| r.as_array_mut()) {
                                    r.retain(|x| x.as_str() != Some(k.as_str()));
                                }
                                *n += 1;
                            }
                        }
                        for k in names_of(m) {
                            seen.push((heck_snake(&k), k));
                        }
                        // a property two members declare with different structured schemas is merged
                        // member by member in turn, where the same collisions can arise one level
                        // down: the later declaration is dropped (same known finding)
                        if m.get("$ref").is_none() {
                            let structured = |v: &Value| v.get("$ref").is_some() || v.get("properties").is_some() || v.get("allOf").is_some() || v.get("oneOf").is_some() || v.get("anyOf").is_some();
                            let mine: Vec<(String, Value)> = m.get("properties").and_then(|p| p.as_object()).map(|p| p.iter().map(|(k, v)| (k.clone(), v.clone())).collect()).unwrap_or_default();
                            for (k, v) in mine {
                                if let Some(prev) = shared.get(&k) {
                                    if prev != &v && structured(prev) && structured(&v) {
                                        if let Some(p) = m.get_mut("properties").and_then(|p| p.as_object_mut()) {
                                            p.remove(&k);
                                        }
                                        if let Some(r) = m.get_mut("required").and_then(|r| r.as_array_mut()) {
                                            r.retain(|x| x.as_str() != Some(k.as_str()));
                                        }
                                        *n += 1;
                                        continue;
                                    }
                                }
                                shared.insert(k, v);
                            }
                        }
                    }
                }
                for (_, c) in o.iter_mut() {
                    walk(c, names_of, n);
                }
            }
            Value::Array(a) => a.iter_mut().for_each(|c| walk(c, names_of, n)),
            _ => {}
        }
    }
    let mut n = 0;
    for (_, d) in defs.iter_mut() {
        walk(d, &names_of, &mut n);
    }
    n
}

/// Names of the definitions of a document.
pub fn def_names(doc: &Value) -> Vec<String> {
    doc.get("definitions")
        .and_then(|d| d.as_object())
        .map(|o| o.keys().cloned().collect())
        .unwrap_or_default()
}

/// A cycle made of bare `$ref` aliases only (A = $ref B, B = $ref A) denotes
/// no schema at all (JSON Schema leaves it undefined); such documents are not
/// generated: the last alias of each pure cycle is replaced by a string.
pub fn break_alias_cycles(defs: &mut Map<String, Value>) {
    let target = |v: &Value| -> Option<String> { alias_target(v) };
    let names: Vec<String> = defs.keys().cloned().collect();
    for start in names {
        let mut seen = vec![start.clone()];
        let mut cur = start.clone();
        loop {
            let Some(next) = defs.get(&cur).and_then(|v| target(v)) else { break };
            if seen.contains(&next) {
                defs.insert(cur.clone(), json!({"type": "string"}));
                super::excluded("pure-alias-cycle", 1);
                break;
            }
            seen.push(next.clone());
            cur = next;
        }
    }
}

// ---------------------------------------------------------------------------
// Fragment membership (used to keep *shrunk* cases inside the domain a
// property quantifies over; the generators are inside by construction).

fn is_annotation(k: &str) -> bool {
    matches!(k, "title" | "description" | "$schema" | "definitions" | "$comment")
}

fn type_list(o: &Map<String, Value>) -> Option<Vec<String>> {
    match o.get("type") {
        None => Some(vec![]),
        Some(Value::String(s)) => Some(vec![s.clone()]),
        Some(Value::Array(a)) => {
            let v: Option<Vec<String>> = a.iter().map(|x| x.as_str().map(|s| s.to_string())).collect();
            let v = v?;
            // only the nullable form [T, "null"]
            if v.len() == 2 && v.contains(&"null".to_string()) && v.iter().any(|t| t != "null") {
                Some(v)
            } else {
                None
            }
        }
        _ => None,
    }
}

fn is_null_schema(v: &Value) -> bool {
    v.as_object().map(|o| o.get("type") == Some(&json!("null")) && o.keys().all(|k| k == "type" || is_annotation(k))).unwrap_or(false)
}

/// Is `schema` inside the faithful fragment F (DESIGN §4.2)? `defs` are the
/// names that may be referenced.
pub fn in_faithful(schema: &Value, defs: &[String]) -> bool {
    let o = match schema {
        Value::Bool(b) => return *b,
        Value::Object(o) => o,
        _ => return false,
    };
    let keys: Vec<&str> = o.keys().map(|k| k.as_str()).filter(|k| !is_annotation(k)).collect();
    if keys.is_empty() {
        return true; // {}
    }
    if keys.contains(&"$ref") {
        if keys.len() != 1 {
            return false;
        }
        return o["$ref"].as_str().and_then(|r| r.strip_prefix("#/definitions/")).map(|n| defs.iter().any(|d| d == n)).unwrap_or(false);
    }
    for comb in ["oneOf", "anyOf", "allOf"] {
        if keys.contains(&comb) {
            if keys.len() != 1 {
                return false;
            }
            let Some(bs) = o[comb].as_array() else { return false };
            let norm;
            let bs: &Vec<Value> = if comb == "allOf" && bs.iter().all(|b| b.get("type") == Some(&json!("object"))) {
                match allof_branches_normalised(bs) {
                    Some(n) => {
                        norm = n;
                        &norm
                    }
                    None => return false,
                }
            } else {
                bs
            };
            if bs.len() < 2 || !bs.iter().all(|b| in_faithful(b, defs)) {
                return false;
            }
            if comb == "anyOf" && !(bs.len() == 2 && bs.iter().filter(|b| is_null_schema(b)).count() == 1) {
                return false;
            }
            if comb == "allOf" && !bs.iter().all(|b| b.get("type") == Some(&json!("object"))) {
                return false;
            }
            return true;
        }
    }
    let Some(types) = type_list(o) else { return false };
    let base: Vec<&str> = types.iter().map(|s| s.as_str()).filter(|t| *t != "null").collect();
    if let Some(e) = o.get("enum") {
        let Some(vals) = e.as_array() else { return false };
        if vals.is_empty() {
            return false;
        }
        let allowed = ["type", "enum", "format"];
        if !keys.iter().all(|k| allowed.contains(k)) {
            return false;
        }
        if let Some(f) = o.get("format") {
            if base.as_slice() != ["integer"] || f != "uint64" || !vals.iter().all(|v| v.is_u64()) {
                return false;
            }
        }
        return match base.as_slice() {
            [] => types.is_empty() && vals.iter().all(|v| v.is_string()),
            ["string"] => vals.iter().all(|v| v.is_string()),
            // without format uint64 the widest type typify selects is i64
            ["integer"] => vals.iter().all(|v| v.is_i64() || (v.is_u64() && o.get("format") == Some(&json!("uint64")))),
            ["number"] => vals.iter().all(|v| v.is_number()),
            _ => false,
        };
    }
    let t = match base.as_slice() {
        [t] => *t,
        [] if types == vec!["null".to_string()] => "null",
        _ => return false, // validation keywords without an explicit type are outside F
    };
    let allowed: &[&str] = match t {
        "string" => &["type", "format", "minLength", "maxLength", "pattern"],
        "integer" => &["type", "format", "minimum", "exclusiveMinimum"],
        "number" => &["type", "format"],
        "boolean" | "null" => &["type"],
        "array" => &["type", "items", "additionalItems", "minItems", "maxItems", "uniqueItems"],
        "object" if o.contains_key("propertyNames") => &["type", "propertyNames", "additionalProperties"],
        "object" => &["type", "properties", "required", "additionalProperties"],
        _ => return false,
    };
    if !keys.iter().all(|k| allowed.contains(k)) {
        return false;
    }
    match t {
        "string" => {
            if let Some(p) = o.get("pattern") {
                if p.as_str().and_then(find_pattern).is_none() {
                    return false;
                }
            }
            if let (Some(a), Some(b)) = (o.get("minLength").and_then(|v| v.as_u64()), o.get("maxLength").and_then(|v| v.as_u64())) {
                if a > b {
                    return false;
                }
            }
            o.get("format").map(|f| f.is_string()).unwrap_or(true)
        }
        "integer" => o.get("minimum").map(|m| m == &json!(0) || m == &json!(1)).unwrap_or(true)
            && o.get("exclusiveMinimum").map(|e| o.get("minimum").and_then(|m| m.as_i64()).map(|m| e == &json!(m - 1)).unwrap_or(false)).unwrap_or(true)
            && o.get("format").map(|f| f.as_str().map(|f| INT_FORMATS.contains(&f)).unwrap_or(false)).unwrap_or(true),
        "array" => match o.get("items") {
            None => keys.iter().all(|k| *k == "type"),
            Some(Value::Array(items)) => {
                let n = items.len() as u64;
                n >= 1
                    && o.get("minItems").and_then(|v| v.as_u64()) == Some(n)
                    && o.get("maxItems").and_then(|v| v.as_u64()) == Some(n)
                    && o.get("uniqueItems").is_none()
                    && o.get("additionalItems").map(|a| a == &json!(false)).unwrap_or(true)
                    && items.iter().all(|i| in_faithful(i, defs))
            }
            Some(item) => {
                if o.contains_key("additionalItems") {
                    return false;
                }
                let mn = o.get("minItems").and_then(|v| v.as_u64());
                let mx = o.get("maxItems").and_then(|v| v.as_u64());
                // only exact lengths (fixed arrays) are represented
                if mn != mx || mn == Some(0) {
                    return false;
                }
                in_faithful(item, defs)
            }
        },
        "object" if o.contains_key("propertyNames") => {
            let Some(pn) = o["propertyNames"].as_object() else { return false };
            pn.keys().all(|k| k == "pattern" || k == "maxLength")
                && pn.get("pattern").and_then(|p| p.as_str()).and_then(find_pattern).is_some()
                && pn.get("maxLength").map(|m| m == &json!(12)).unwrap_or(true)
                && match o.get("additionalProperties") {
                    None | Some(Value::Bool(true)) => true,
                    Some(Value::Bool(false)) => false,
                    Some(ap) => in_faithful(ap, defs),
                }
        }
        "object" => {
            let empty = Map::new();
            let props = match o.get("properties") {
                None => &empty,
                Some(Value::Object(p)) => p,
                _ => return false,
            };
            if !props.values().all(|p| in_faithful(p, defs)) {
                return false;
            }
            if let Some(r) = o.get("required") {
                let Some(r) = r.as_array() else { return false };
                if !r.iter().all(|n| n.as_str().map(|n| props.contains_key(n)).unwrap_or(false)) {
                    return false;
                }
            }
            match o.get("additionalProperties") {
                None | Some(Value::Bool(_)) => true,
                Some(ap) => in_faithful(ap, defs),
            }
        }
        _ => true,
    }
}

/// All definitions of a document are inside F.
pub fn doc_in_faithful(doc: &Value) -> bool {
    let names = def_names(doc);
    let Some(defs) = doc.get("definitions").and_then(|d| d.as_object()) else { return false };
    let mut tmp = defs.clone();
    let before = tmp.clone();
    break_alias_cycles_quiet(&mut tmp);
    if tmp != before {
        return false;
    }
    defs.values().all(|s| in_faithful(s, &names))
}

fn break_alias_cycles_quiet(defs: &mut Map<String, Value>) {
    let target = |v: &Value| -> Option<String> { alias_target(v) };
    let names: Vec<String> = defs.keys().cloned().collect();
    for start in names {
        let mut seen = vec![start.clone()];
        let mut cur = start.clone();
        loop {
            let Some(next) = defs.get(&cur).and_then(|v| target(v)) else { break };
            if seen.contains(&next) {
                defs.insert(cur.clone(), json!({"type": "string"}));
                break;
            }
            seen.push(next.clone());
            cur = next;
        }
    }
}

// ---------------------------------------------------------------------------
// reference graph helpers

pub fn refs_in(v: &Value, out: &mut std::collections::BTreeSet<String>) {
    match v {
        Value::Object(o) => {
            if let Some(r) = o.get("$ref").and_then(|r| r.as_str()) {
                if let Some(n) = r.strip_prefix("#/definitions/") {
                    out.insert(n.to_string());
                }
            }
            o.values().for_each(|c| refs_in(c, out));
        }
        Value::Array(a) => a.iter().for_each(|c| refs_in(c, out)),
        _ => {}
    }
}

/// def -> defs reachable through references (transitive)
pub fn reachability(doc: &Value) -> std::collections::BTreeMap<String, std::collections::BTreeSet<String>> {
    use std::collections::{BTreeMap, BTreeSet};
    let mut direct: BTreeMap<String, BTreeSet<String>> = BTreeMap::new();
    if let Some(defs) = doc.get("definitions").and_then(|d| d.as_object()) {
        for (k, v) in defs {
            let mut s = BTreeSet::new();
            refs_in(v, &mut s);
            direct.insert(k.clone(), s);
        }
    }
    let mut reach = direct.clone();
    loop {
        let mut changed = false;
        for k in direct.keys() {
            let cur: Vec<String> = reach[k].iter().cloned().collect();
            for m in cur {
                if let Some(more) = direct.get(&m) {
                    for x in more.clone() {
                        if reach.get_mut(k).unwrap().insert(x) {
                            changed = true;
                        }
                    }
                }
            }
        }
        if !changed {
            break;
        }
    }
    reach
}

/// Visit every object schema with `properties` inside definition `def`;
/// f(def name, object schema).
pub fn for_each_object_schema(v: &mut Value, f: &mut dyn FnMut(&mut Map<String, Value>)) {
    match v {
        Value::Object(o) => {
            if o.get("properties").map(|p| p.is_object()).unwrap_or(false) {
                f(o);
            }
            for (_, c) in o.iter_mut() {
                for_each_object_schema(c, f);
            }
        }
        Value::Array(a) => a.iter_mut().for_each(|c| for_each_object_schema(c, f)),
        _ => {}
    }
}

/// Optional (non-required) properties whose schema is a bare reference that
/// closes a cycle: (definition, property) pairs.
pub fn optional_cyclic_refs(doc: &Value) -> Vec<(String, String)> {
    let reach = reachability(doc);
    let mut out = vec![];
    let Some(defs) = doc.get("definitions").and_then(|d| d.as_object()) else { return out };
    for (dname, d) in defs {
        let mut d2 = d.clone();
        for_each_object_schema(&mut d2, &mut |o| {
            let required: Vec<String> = o.get("required").and_then(|r| r.as_array()).map(|a| a.iter().filter_map(|x| x.as_str().map(|s| s.to_string())).collect()).unwrap_or_default();
            if let Some(ps) = o.get("properties").and_then(|p| p.as_object()) {
                for (pn, ps) in ps {
                    if required.contains(pn) {
                        continue;
                    }
                    // a bare reference, or one made nullable through a oneOf (the `null` that is
                    // written back for it matches the oneOf twice when the target admits null itself)
                    let direct = ps.get("$ref").and_then(|r| r.as_str());
                    let through_one_of = ps.get("oneOf").and_then(|b| b.as_array()).filter(|b| b.len() == 2 && b.iter().any(is_null_schema)).and_then(|b| b.iter().find_map(|x| x.get("$ref").and_then(|r| r.as_str())));
                    if let Some(t) = direct.or(through_one_of).and_then(|r| r.strip_prefix("#/definitions/")) {
                        if t == dname || reach.get(t).map(|s| s.contains(dname)).unwrap_or(false) {
                            out.push((dname.clone(), pn.clone()));
                        }
                    }
                }
            }
        });
    }
    out
}

/// KF-004 exclusion: make such properties explicitly nullable.
pub fn make_optional_cyclic_refs_nullable(doc: &mut Value) -> u64 {
    let reach = reachability(doc);
    let mut n = 0;
    let Some(defs) = doc.get_mut("definitions").and_then(|d| d.as_object_mut()) else { return 0 };
    for (dname, d) in defs.iter_mut() {
        for_each_object_schema(d, &mut |o| {
            let required: Vec<String> = o.get("required").and_then(|r| r.as_array()).map(|a| a.iter().filter_map(|x| x.as_str().map(|s| s.to_string())).collect()).unwrap_or_default();
            if let Some(ps) = o.get_mut("properties").and_then(|p| p.as_object_mut()) {
                for (pn, ps) in ps.iter_mut() {
                    if required.contains(pn) {
                        continue;
                    }
                    let target_of = |v: &Value| v.get("$ref").and_then(|r| r.as_str()).and_then(|r| r.strip_prefix("#/definitions/")).map(|s| s.to_string());
                    let cyclic = |t: &String| t == dname || reach.get(t).map(|s| s.contains(dname)).unwrap_or(false);
                    if let Some(t) = target_of(ps) {
                        if cyclic(&t) {
                            // (anyOf: the target may itself admit null, which a oneOf would then match twice)
                            *ps = json!({"anyOf": [ps.clone(), {"type": "null"}]});
                            n += 1;
                        }
                        continue;
                    }
                    // already nullable through a oneOf: same reason, the null that is written back
                    // must not match twice
                    let alts: Option<Vec<Value>> = ps.get("oneOf").and_then(|b| b.as_array()).filter(|b| b.len() == 2 && b.iter().filter(|x| is_null_schema(x)).count() == 1).cloned();
                    if let Some(alts) = alts {
                        if let Some(t) = alts.iter().find_map(|a| target_of(a)) {
                            if cyclic(&t) && ps.as_object().map(|o| o.len() == 1).unwrap_or(false) {
                                *ps = json!({"anyOf": alts});
                                n += 1;
                            }
                        }
                    }
                }
            }
        });
    }
    n
}

/// Is the document inside the enforced grammar E? (F restricted to
/// constraints typify represents, plus typed/untyped `not:{enum}` deny lists.)
pub fn doc_in_enforced(doc: &Value) -> bool {
    fn strip_not(v: &Value) -> Option<Value> {
        // rewrite deny lists into plain typed strings for the F check
        match v {
            Value::Object(o) => {
                let mut m = Map::new();
                for (k, c) in o {
                    if k == "not" {
                        let e = c.get("enum")?.as_array()?;
                        if e.is_empty() || !c.as_object()?.keys().all(|k| k == "enum") || !e.iter().all(|x| x.is_string()) {
                            return None;
                        }
                        if !o.keys().all(|k| k == "not" || k == "type") {
                            return None;
                        }
                        continue;
                    }
                    m.insert(k.clone(), strip_not(c)?);
                }
                if o.contains_key("not") && !m.contains_key("type") {
                    m.insert("type".into(), json!("string"));
                }
                Some(Value::Object(m))
            }
            Value::Array(a) => Some(Value::Array(a.iter().map(strip_not).collect::<Option<Vec<_>>>()?)),
            x => Some(x.clone()),
        }
    }
    fn only_enforced(v: &Value) -> bool {
        match v {
            Value::Object(o) => {
                if (o.contains_key("format") && !(o.contains_key("enum") && o.get("format") == Some(&json!("uint64")))) || o.contains_key("minimum") || o.contains_key("uniqueItems") || o.contains_key("anyOf") || o.contains_key("allOf") {
                    return false;
                }
                if let Some(Value::Array(_)) = o.get("type") {
                    return false;
                }
                if o.get("type") == Some(&json!("number")) && !o.contains_key("enum") {
                    return false;
                }
                if o.is_empty() {
                    return false; // the any-schema enforces nothing
                }
                if o.contains_key("propertyNames") {
                    // the key constraints are what is enforced; typed values must be enforced ones too
                    return match o.get("additionalProperties") {
                        Some(ap @ Value::Object(_)) => only_enforced(ap),
                        _ => true,
                    };
                }
                if let Some(ap) = o.get("additionalProperties") {
                    if ap.is_object() {
                        return false;
                    }
                }
                o.iter().all(|(k, c)| match k.as_str() {
                    "enum" | "required" => true,
                    // a map of property schemas, not a schema itself
                    "properties" => c.as_object().map(|ps| ps.values().all(only_enforced)).unwrap_or(false),
                    _ => only_enforced(c),
                })
            }
            Value::Array(a) => a.iter().all(only_enforced),
            Value::Bool(_) => true,
            _ => true,
        }
    }
    let Some(stripped) = strip_not(doc) else { return false };
    doc_in_faithful(&stripped) && doc.get("definitions").map(only_enforced).unwrap_or(false)
}

/// Two `null` alternatives in one union make typify fail an assertion while
/// rendering (known finding KF-008); avoided by construction.
fn not_both_null(a: Value, b: Value) -> Vec<Value> {
    if is_null_schema(&a) && is_null_schema(&b) {
        super::excluded("union-of-two-nulls", 1);
        vec![a, json!({"type": "boolean"})]
    } else {
        vec![a, b]
    }
}

/// The definition a schema is a bare alias of: `{$ref}` possibly wrapped in a
/// nullable union (`oneOf/anyOf [{$ref}, {type: null}]`). A cycle made only of
/// such aliases has no inhabitant but `null` and recurses forever in serde.
fn alias_target(v: &Value) -> Option<String> {
    let o = v.as_object()?;
    if o.keys().all(|k| k == "$ref" || k == "description" || k == "title") {
        return o.get("$ref")?.as_str()?.strip_prefix("#/definitions/").map(|s| s.to_string());
    }
    for key in ["oneOf", "anyOf"] {
        if let Some(bs) = o.get(key).and_then(|b| b.as_array()) {
            if o.keys().all(|k| k == key || k == "description" || k == "title") && bs.len() == 2 && bs.iter().filter(|b| is_null_schema(b)).count() == 1 {
                return bs.iter().find(|b| !is_null_schema(b)).and_then(alias_target);
            }
        }
    }
    None
}
