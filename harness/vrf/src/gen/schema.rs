//! Schema grammars (DESIGN.md §4.2): W (wide), F (faithful), E (enforced).

use super::names::*;
use super::G;
use serde_json::{json, Map, Value};

#[derive(Clone, Debug)]
pub struct Cfg {
    pub max_depth: usize,
    pub max_defs: usize,
    /// names from the odd alphabet (keywords, unicode, punctuation)
    pub odd_names: usize, // chance out of 100
    /// W-only constructs (not, non-exclusive anyOf, const, multi-type, numeric
    /// bounds, array length bounds, if/then/else-free but loose things)
    pub wide: bool,
    /// only constructs whose constraints typify represents in the type
    pub enforced: bool,
    pub defaults: usize, // chance out of 100 of attaching a default
    pub recursion: bool,
    pub titles: bool,
    /// allow {} / true schemas (serde_json::Value)
    pub any: bool,
    pub int_formats: bool,
    pub str_formats: bool,
    pub floats: bool,
}

impl Cfg {
    pub fn wide() -> Cfg {
        Cfg {
            max_depth: 3,
            max_defs: 5,
            odd_names: 4,
            wide: true,
            enforced: false,
            defaults: 10,
            recursion: true,
            titles: true,
            any: true,
            int_formats: true,
            str_formats: true,
            floats: true,
        }
    }
    pub fn faithful() -> Cfg {
        Cfg {
            max_depth: 3,
            max_defs: 4,
            odd_names: 0,
            wide: false,
            enforced: false,
            defaults: 0,
            recursion: true,
            titles: false,
            any: true,
            int_formats: true,
            str_formats: true,
            floats: true,
        }
    }
    pub fn enforced() -> Cfg {
        Cfg {
            max_depth: 2,
            max_defs: 3,
            odd_names: 0,
            wide: false,
            enforced: true,
            defaults: 0,
            recursion: false,
            titles: false,
            any: false,
            int_formats: false,
            str_formats: false,
            floats: false,
        }
    }
}

/// Patterns from the portable regex subset on which python `re.search` and
/// ECMAScript (regress) agree, each with a generator of matching strings and
/// some non-matching strings.
pub struct Pat {
    pub re: &'static str,
    pub good: &'static [&'static str],
    pub bad: &'static [&'static str],
}

pub const PATTERNS: &[Pat] = &[
    Pat { re: "^[a-z]+$", good: &["a", "abc", "zzzzzz", "qwertyuiop"], bad: &["", "A", "a1", "é", "a b"] },
    Pat { re: "^[A-Z][a-z]*$", good: &["A", "Abc", "Zed"], bad: &["", "a", "AB", "aB"] },
    Pat { re: "^[0-9]{3}$", good: &["000", "123", "999"], bad: &["12", "1234", "12a", ""] },
    Pat { re: "^a+b?$", good: &["a", "ab", "aaab", "aaaa"], bad: &["", "b", "abb", "ba"] },
    Pat { re: "^(foo|bar)$", good: &["foo", "bar"], bad: &["", "foobar", "fo", "baz"] },
    Pat { re: "x", good: &["x", "axb", "xxx", "éx"], bad: &["", "abc", "X"] },
    Pat { re: "^é+$", good: &["é", "éé", "ééé"], bad: &["", "e", "éa"] },
    Pat { re: "^.{2,4}$", good: &["ab", "abc", "abcd", "éé", "名名名"], bad: &["", "a", "abcde", "é"] },
    Pat { re: "^[a-c]{1,3}[0-9]?$", good: &["a", "abc", "ab1", "c9"], bad: &["", "abcd", "a11", "d"] },
    Pat { re: "^[^ ]+$", good: &["a", "a-b", "名"], bad: &["", "a b", " "] },
];

pub fn pattern(g: &mut G) -> &'static Pat {
    &PATTERNS[g.below(PATTERNS.len())]
}

pub fn find_pattern(re: &str) -> Option<&'static Pat> {
    PATTERNS.iter().find(|p| p.re == re)
}

pub const STR_FORMATS: &[&str] = &["uuid", "date", "date-time", "ip", "ipv4", "ipv6"];
pub const INT_FORMATS: &[&str] = &["int8", "uint8", "int16", "uint16", "int32", "uint32", "int64", "uint64"];

pub struct Ctx {
    pub cfg: Cfg,
    pub defs: Vec<String>,
    /// definitions that may be referenced from the position being generated
    /// (all of them when recursion is allowed; only later ones otherwise)
    pub visible_from: usize,
    /// prefix for `$ref`
    pub ref_prefix: String,
    /// titles are unique within a document (two schemas resolving to one
    /// type name is a known finding, avoided by construction)
    pub title_seq: std::cell::Cell<usize>,
}

impl Ctx {
    pub fn refs(&self) -> &[String] {
        &self.defs[self.visible_from.min(self.defs.len())..]
    }
}

fn maybe_meta(g: &mut G, c: &Ctx, mut s: Map<String, Value>) -> Value {
    if c.cfg.titles && g.chance(1, 12) {
        s.insert("description".into(), json!(g.pick(&["a thing", "multi\nline", "quote \" and \\ backslash", "*/ end", "{braces}"]).to_string()));
    }
    Value::Object(s)
}

pub fn string_schema(g: &mut G, c: &Ctx) -> Value {
    let mut s = Map::new();
    s.insert("type".into(), json!("string"));
    match g.weighted(&[5, if c.cfg.str_formats { 3 } else { 0 }, 4, if c.cfg.wide { 1 } else { 0 }]) {
        0 => {}
        1 => {
            s.insert("format".into(), json!(g.pick(STR_FORMATS)));
        }
        2 => {
            // constraints
            let k = g.below(4);
            if k == 0 || k == 3 {
                let p = pattern(g);
                s.insert("pattern".into(), json!(p.re));
            }
            if k == 1 || k == 3 || k == 2 {
                let lo = g.below(4);
                if g.chance(2, 3) {
                    s.insert("minLength".into(), json!(lo));
                }
                if g.chance(2, 3) || k == 2 {
                    s.insert("maxLength".into(), json!(lo + g.below(5)));
                }
            }
        }
        _ => {
            s.insert("format".into(), json!(g.pick(&["email", "hostname", "uri", "binary", "password", "made-up"])));
        }
    }
    maybe_meta(g, c, s)
}

pub fn integer_schema(g: &mut G, c: &Ctx) -> Value {
    let mut s = Map::new();
    s.insert("type".into(), json!("integer"));
    if c.cfg.int_formats && g.chance(1, 2) {
        s.insert("format".into(), json!(g.pick(INT_FORMATS)));
    }
    if c.cfg.wide && g.chance(1, 4) {
        let bounds: &[i64] = &[0, 1, -1, 2, 100, 127, 128, 255, 256, -128, 65535, 32767, -32768, 4294967295, 2147483647, -2147483648];
        if g.chance(1, 2) {
            s.insert("minimum".into(), json!(g.pick(bounds)));
        }
        if g.chance(1, 2) {
            s.insert("maximum".into(), json!(g.pick(bounds)));
        }
        if g.chance(1, 8) {
            s.insert("multipleOf".into(), json!(2));
        }
    } else if !c.cfg.enforced && g.chance(1, 6) {
        // lower bound 0 / 1: a documented selection rule (uint / NonZero)
        s.insert("minimum".into(), json!(g.below(2)));
    }
    maybe_meta(g, c, s)
}

pub fn number_schema(g: &mut G, c: &Ctx) -> Value {
    let mut s = Map::new();
    s.insert("type".into(), json!("number"));
    if g.chance(1, 3) {
        s.insert("format".into(), json!(g.pick(&["float", "double"])));
    }
    maybe_meta(g, c, s)
}

pub fn string_enum(g: &mut G, c: &Ctx) -> Value {
    let n = 1 + g.below(4);
    let mut vals: Vec<String> = vec![];
    let mut idents = std::collections::BTreeSet::new();
    let mut tries = 0;
    while vals.len() < n && tries < 50 {
        tries += 1;
        let v = if g.below(100) < c.cfg.odd_names { odd_name(g) } else { g.pick(ENUM_VALUES).to_string() };
        if vals.contains(&v) {
            continue;
        }
        // keep values collision free after sanitisation (collisions are C08's subject)
        if !idents.insert(sanitize_like(&v, true)) {
            super::excluded("sanitised-name-collision", 1);
            continue;
        }
        vals.push(v);
    }
    let mut s = Map::new();
    if g.chance(4, 5) || c.cfg.enforced {
        s.insert("type".into(), json!("string"));
    }
    s.insert("enum".into(), json!(vals));
    maybe_meta(g, c, s)
}

pub fn typed_enum(g: &mut G, c: &Ctx) -> Value {
    let _ = c;
    match g.below(3) {
        0 => {
            let mut v: Vec<i64> = (0..1 + g.below(4)).map(|_| g.range(-5, 300)).collect();
            v.sort();
            v.dedup();
            json!({"type": "integer", "enum": v})
        }
        1 => json!({"type": "boolean", "enum": [g.chance(1, 2)]}),
        _ => {
            let mut v: Vec<f64> = (0..1 + g.below(3)).map(|_| g.range(-8, 8) as f64 + 0.5).collect();
            v.sort_by(|a, b| a.partial_cmp(b).unwrap());
            v.dedup();
            json!({"type": "number", "enum": v})
        }
    }
}

pub fn leaf(g: &mut G, c: &Ctx) -> Value {
    let w_ref = if c.refs().is_empty() { 0 } else { 6 };
    let cfg = &c.cfg;
    match g.weighted(&[
        6,                                  // string
        5,                                  // integer
        if cfg.floats { 2 } else { 0 },     // number
        3,                                  // boolean
        4,                                  // string enum
        if cfg.enforced || cfg.wide { 2 } else { 1 }, // typed enum
        w_ref,                              // $ref
        if cfg.any { 1 } else { 0 },        // any
        if cfg.wide { 1 } else { 0 },       // null
        if cfg.wide { 1 } else { 0 },       // const
    ]) {
        0 => string_schema(g, c),
        1 => integer_schema(g, c),
        2 => number_schema(g, c),
        3 => json!({"type": "boolean"}),
        4 => string_enum(g, c),
        5 => typed_enum(g, c),
        6 => json!({"$ref": format!("{}{}", c.ref_prefix, g.pick(c.refs()))}),
        7 => {
            if g.chance(1, 2) {
                json!({})
            } else {
                json!(true)
            }
        }
        8 => json!({"type": "null"}),
        _ => {
            if g.chance(1, 2) {
                json!({"const": g.pick(ENUM_VALUES)})
            } else {
                json!({"type": "integer", "const": g.range(0, 9)})
            }
        }
    }
}

pub fn prop_names(g: &mut G, c: &Ctx, n: usize) -> Vec<String> {
    if g.below(100) < c.cfg.odd_names {
        // names that collide after sanitisation are C08's subject (known
        // finding there); here they are avoided by construction and counted
        let mut ex = 0;
        let v = odd_names_distinct(g, n, &mut ex);
        super::excluded("sanitised-name-collision", ex);
        v.into_iter().filter(|s| !s.is_empty()).collect()
    } else {
        benign_props(g, n)
    }
}

pub fn object_schema(g: &mut G, c: &Ctx, depth: usize) -> Value {
    let n = g.weighted(&[1, 3, 4, 3, 1]);
    let names = prop_names(g, c, n);
    let mut props = Map::new();
    for name in &names {
        props.insert(name.clone(), schema(g, c, depth + 1));
    }
    let mut required: Vec<String> = names.iter().filter(|_| g.chance(1, 2)).cloned().collect();
    if c.cfg.wide && g.chance(1, 30) {
        required.push("undeclared".into());
    }
    let mut s = Map::new();
    s.insert("type".into(), json!("object"));
    if !props.is_empty() || g.chance(1, 2) {
        s.insert("properties".into(), Value::Object(props));
    }
    if !required.is_empty() {
        s.insert("required".into(), json!(required));
    }
    match g.weighted(&[4, 1, 3, if c.cfg.enforced { 0 } else { 2 }]) {
        0 => {}
        1 => {
            s.insert("additionalProperties".into(), json!(true));
        }
        2 => {
            s.insert("additionalProperties".into(), json!(false));
        }
        _ => {
            s.insert("additionalProperties".into(), schema(g, c, depth + 1));
        }
    }
    if c.cfg.wide && g.chance(1, 25) {
        s.insert("patternProperties".into(), json!({"^x-": {"type": "string"}}));
    }
    if c.cfg.wide && g.chance(1, 30) {
        s.insert("propertyNames".into(), json!({"pattern": "^[a-z]+$"}));
    }
    if c.cfg.wide && g.chance(1, 30) {
        s.insert("minProperties".into(), json!(1));
    }
    maybe_meta(g, c, s)
}

pub fn map_schema(g: &mut G, c: &Ctx, depth: usize) -> Value {
    let mut s = Map::new();
    s.insert("type".into(), json!("object"));
    s.insert("additionalProperties".into(), schema(g, c, depth + 1));
    Value::Object(s)
}

pub fn array_schema(g: &mut G, c: &Ctx, depth: usize) -> Value {
    let mut s = Map::new();
    s.insert("type".into(), json!("array"));
    match g.weighted(&[5, 3, 2, if c.cfg.enforced { 0 } else { 1 }]) {
        0 => {
            s.insert("items".into(), schema(g, c, depth + 1));
            if c.cfg.wide && g.chance(1, 5) {
                s.insert("minItems".into(), json!(g.below(3)));
            }
            if c.cfg.wide && g.chance(1, 8) {
                s.insert("maxItems".into(), json!(2 + g.below(3)));
            }
        }
        1 => {
            // tuple
            let n = 1 + g.below(if c.cfg.wide { 4 } else { 3 });
            let items: Vec<Value> = (0..n).map(|_| schema(g, c, depth + 1)).collect();
            s.insert("items".into(), json!(items));
            s.insert("minItems".into(), json!(n));
            s.insert("maxItems".into(), json!(n));
            if g.chance(1, 2) {
                s.insert("additionalItems".into(), json!(false));
            }
        }
        2 => {
            // fixed length array
            let n = 1 + g.below(4);
            s.insert("items".into(), schema(g, c, depth + 1));
            s.insert("minItems".into(), json!(n));
            s.insert("maxItems".into(), json!(n));
        }
        _ => {
            // set (items must be hashable: scalars only)
            let item = match g.below(3) {
                0 => json!({"type": "string"}),
                1 => json!({"type": "integer"}),
                _ => string_enum(g, c),
            };
            s.insert("items".into(), item);
            s.insert("uniqueItems".into(), json!(true));
        }
    }
    maybe_meta(g, c, s)
}

pub fn nullable(g: &mut G, c: &Ctx, depth: usize) -> Value {
    match g.below(3) {
        0 => {
            // type: [T, null]
            let t = *g.pick(&["string", "integer", "boolean", "object", "array"]);
            match t {
                "object" => {
                    let mut o = object_schema(g, c, depth + 1);
                    o["type"] = json!(["object", "null"]);
                    o
                }
                "array" => json!({"type": ["array", "null"], "items": schema(g, c, depth + 1)}),
                t => json!({"type": [t, "null"]}),
            }
        }
        1 => json!({"oneOf": [schema(g, c, depth + 1), {"type": "null"}]}),
        _ => json!({"anyOf": [schema(g, c, depth + 1), {"type": "null"}]}),
    }
}

fn tag_values(g: &mut G, n: usize) -> Vec<String> {
    let mut v: Vec<String> = vec![];
    let mut idents = std::collections::BTreeSet::new();
    while v.len() < n {
        let s = g.pick(ENUM_VALUES).to_string();
        if idents.insert(heck_pascal(&s)) {
            v.push(s);
        }
    }
    v
}

fn closed_object(g: &mut G, c: &Ctx, depth: usize, fixed: Vec<(String, Value)>, close: bool) -> Value {
    let n = g.below(3);
    let taken: Vec<String> = fixed.iter().map(|(k, _)| heck_snake(k)).collect();
    let names: Vec<String> = benign_props(g, n + 2)
        .into_iter()
        .filter(|p| !taken.contains(&heck_snake(p)))
        .take(n)
        .collect();
    let mut props = Map::new();
    let mut required: Vec<String> = vec![];
    for (k, v) in fixed {
        required.push(k.clone());
        props.insert(k, v);
    }
    for name in names {
        props.insert(name.clone(), schema(g, c, depth + 1));
        if g.chance(1, 2) {
            required.push(name);
        }
    }
    let mut s = Map::new();
    s.insert("type".into(), json!("object"));
    s.insert("properties".into(), Value::Object(props));
    s.insert("required".into(), json!(required));
    if close {
        s.insert("additionalProperties".into(), json!(false));
    }
    Value::Object(s)
}

/// oneOf in one of the four serde tagging shapes or with disjoint branches.
pub fn one_of(g: &mut G, c: &Ctx, depth: usize) -> Value {
    let n = 2 + g.below(2);
    let close = g.chance(1, 2);
    let branches: Vec<Value> = match g.below(5) {
        0 => {
            // externally tagged: a string enum for unit variants + single-member objects
            let tags = tag_values(g, n + 1);
            let mut b = vec![json!({"type": "string", "enum": [tags[0].clone()]})];
            for t in &tags[1..] {
                let mut props = Map::new();
                props.insert(t.clone(), schema(g, c, depth + 1));
                b.push(json!({"type": "object", "properties": props, "required": [t], "additionalProperties": false}));
            }
            b
        }
        1 => {
            // internally tagged
            let tags = tag_values(g, n);
            let tagname = g.pick(&["type", "kind", "tag", "t"]).to_string();
            tags.iter()
                .map(|t| closed_object(g, c, depth, vec![(tagname.clone(), json!({"type": "string", "enum": [t]}))], close))
                .collect()
        }
        2 => {
            // adjacently tagged
            let tags = tag_values(g, n);
            tags.iter()
                .enumerate()
                .map(|(i, t)| {
                    if i == 0 && g.chance(1, 3) {
                        json!({"type": "object", "properties": {"tag": {"type": "string", "enum": [t]}}, "required": ["tag"], "additionalProperties": false})
                    } else {
                        let content = schema(g, c, depth + 1);
                        let mut o = json!({"type": "object", "properties": {"tag": {"type": "string", "enum": [t]}, "content": content}, "required": ["tag", "content"]});
                        if close {
                            o["additionalProperties"] = json!(false);
                        }
                        o
                    }
                })
                .collect()
        }
        3 => {
            // JSON-type-disjoint branches
            let mut kinds = vec!["string", "integer", "boolean", "object", "array"];
            g.shuffle(&mut kinds);
            kinds
                .into_iter()
                .take(n)
                .map(|k| match k {
                    "string" => string_schema(g, c),
                    "integer" => json!({"type": "integer"}),
                    "boolean" => json!({"type": "boolean"}),
                    "object" => object_schema(g, c, depth + 1),
                    _ => json!({"type": "array", "items": schema(g, c, depth + 1)}),
                })
                .collect()
        }
        _ => {
            // required-key-disjoint closed objects
            let keys = benign_props(g, n);
            keys.iter()
                .map(|k| { let l = leaf(g, c); closed_object(g, c, depth, vec![(k.clone(), l)], true) })
                .map(|mut o| {
                    // only the distinguishing key is required; others optional but closed
                    o["additionalProperties"] = json!(false);
                    o
                })
                .collect()
        }
    };
    json!({"oneOf": branches})
}

pub fn all_of_objects(g: &mut G, c: &Ctx, depth: usize) -> Value {
    let n = 2 + g.below(2);
    let names = benign_props(g, n * 2);
    let mut branches = vec![];
    for i in 0..n {
        let mut props = Map::new();
        let mine = &names[(i * 2).min(names.len())..((i * 2 + 2).min(names.len()))];
        for p in mine {
            props.insert(p.clone(), leaf(g, c));
        }
        let req: Vec<String> = mine.iter().filter(|_| g.chance(1, 2)).cloned().collect();
        let mut o = json!({"type": "object", "properties": props});
        if !req.is_empty() {
            o["required"] = json!(req);
        }
        branches.push(o);
    }
    let _ = depth;
    json!({"allOf": branches})
}

/// A schema at `depth`.
pub fn schema(g: &mut G, c: &Ctx, depth: usize) -> Value {
    if depth >= c.cfg.max_depth {
        return leaf(g, c);
    }
    let cfg = &c.cfg;
    let mut v = match g.weighted(&[
        8,                               // leaf
        6,                               // object
        if cfg.enforced { 0 } else { 2 }, // map
        4,                               // array
        if cfg.enforced { 0 } else { 3 }, // nullable
        3,                               // oneOf
        if cfg.enforced { 0 } else { 1 }, // allOf of objects
        if cfg.wide { 2 } else { 0 },    // wide-only combinators
    ]) {
        0 => leaf(g, c),
        1 => object_schema(g, c, depth),
        2 => map_schema(g, c, depth),
        3 => array_schema(g, c, depth),
        4 => nullable(g, c, depth),
        5 => one_of(g, c, depth),
        6 => all_of_objects(g, c, depth),
        _ => wide_only(g, c, depth),
    };
    if cfg.titles && g.chance(1, 15) {
        if let Some(o) = v.as_object_mut() {
            let n = c.title_seq.get();
            c.title_seq.set(n + 1);
            o.insert("title".into(), json!(format!("{}{}", g.pick(&["Titled", "Other Title ", "t"]), n)));
        }
    }
    v
}

fn wide_only(g: &mut G, c: &Ctx, depth: usize) -> Value {
    match g.below(8) {
        0 => json!({"not": leaf(g, c)}),
        1 => json!({"not": {"enum": [g.pick(ENUM_VALUES), g.pick(ENUM_VALUES)]}}),
        2 => json!({"type": "string", "not": {"enum": [g.pick(ENUM_VALUES)]}}),
        3 => json!({"anyOf": [schema(g, c, depth + 1), schema(g, c, depth + 1)]}),
        4 => {
            let mut ts = vec!["string", "integer", "boolean", "null", "number", "array", "object"];
            g.shuffle(&mut ts);
            let k = 2 + g.below(3);
            json!({"type": ts[..k].to_vec()})
        }
        5 => json!({"allOf": [schema(g, c, depth + 1), schema(g, c, depth + 1)]}),
        6 => json!({"oneOf": [schema(g, c, depth + 1), schema(g, c, depth + 1)]}),
        _ => json!({"enum": [g.pick(ENUM_VALUES), g.range(0, 5), null]}),
    }
}

/// A document: definitions plus (optionally) a titled root.
pub fn document(g: &mut G, cfg: &Cfg) -> Value {
    let ndefs = 1 + g.below(cfg.max_defs);
    let mut names: Vec<String> = DEF_NAMES.iter().map(|s| s.to_string()).collect();
    g.shuffle(&mut names);
    names.truncate(ndefs);
    names.sort();
    if g.below(100) < cfg.odd_names {
        let k = g.below(names.len());
        names[k] = odd_name(g);
        names.sort();
        names.dedup();
    }
    let mut defs = Map::new();
    let title_seq = std::cell::Cell::new(0usize);
    for (i, name) in names.iter().enumerate() {
        let c = Ctx {
            cfg: cfg.clone(),
            defs: names.clone(),
            visible_from: if cfg.recursion { 0 } else { i + 1 },
            ref_prefix: "#/definitions/".into(),
            title_seq: title_seq.clone(),
        };
        // top-level definitions are mostly structured
        let s = if g.chance(2, 3) {
            match g.below(4) {
                0 | 1 => object_schema(g, &c, 0),
                2 => one_of(g, &c, 0),
                _ => schema(g, &c, 0),
            }
        } else {
            schema(g, &c, 1)
        };
        defs.insert(name.clone(), s);
    }
    break_alias_cycles(&mut defs);
    let mut doc = Map::new();
    doc.insert("$schema".into(), json!("http://json-schema.org/draft-07/schema#"));
    doc.insert("definitions".into(), Value::Object(defs));
    if g.chance(1, 3) {
        let c = Ctx { cfg: cfg.clone(), defs: names.clone(), visible_from: 0, ref_prefix: "#/definitions/".into(), title_seq: title_seq.clone() };
        if let Value::Object(root) = object_schema(g, &c, 1) {
            for (k, v) in root {
                doc.insert(k, v);
            }
            doc.insert("title".into(), json!("RootType"));
        }
    }
    Value::Object(doc)
}

/// Names of the definitions of a document.
pub fn def_names(doc: &Value) -> Vec<String> {
    doc.get("definitions")
        .and_then(|d| d.as_object())
        .map(|o| o.keys().cloned().collect())
        .unwrap_or_default()
}

/// A cycle made of bare `$ref` aliases only (A = $ref B, B = $ref A) denotes
/// no schema at all (JSON Schema leaves it undefined); such documents are not
/// generated: the last alias of each pure cycle is replaced by a string.
pub fn break_alias_cycles(defs: &mut Map<String, Value>) {
    let target = |v: &Value| -> Option<String> {
        let o = v.as_object()?;
        if o.keys().all(|k| k == "$ref" || k == "description" || k == "title") {
            o.get("$ref")?.as_str()?.strip_prefix("#/definitions/").map(|s| s.to_string())
        } else {
            None
        }
    };
    let names: Vec<String> = defs.keys().cloned().collect();
    for start in names {
        let mut seen = vec![start.clone()];
        let mut cur = start.clone();
        loop {
            let Some(next) = defs.get(&cur).and_then(|v| target(v)) else { break };
            if seen.contains(&next) {
                defs.insert(cur.clone(), json!({"type": "string"}));
                super::excluded("pure-alias-cycle", 1);
                break;
            }
            seen.push(next.clone());
            cur = next;
        }
    }
}
