//! Random universes of serde-derivable Rust types (DESIGN.md C04): a small
//! AST, its rendering to Rust source, and sample values written as Rust
//! expressions generated from the same AST.

use super::G;

#[derive(Clone, Debug)]
pub enum Ty {
    Bool,
    Int(&'static str),
    NonZero(&'static str),
    F64,
    F32,
    Str,
    Char,
    Unit,
    Opt(Box<Ty>),
    Vec(Box<Ty>),
    Map(Box<Ty>, bool), // bool: BTreeMap
    Set(Box<Ty>),
    Tuple(Vec<Ty>),
    Array(Box<Ty>, usize),
    Boxed(Box<Ty>),
    Ref(usize),
}

#[derive(Clone, Debug)]
pub struct Field {
    pub name: String,
    pub ty: Ty,
    pub rename: Option<String>,
    pub default: bool,
    pub skip_none: bool,
    /// `#[serde(default = "fn")]`: (function name, body expression)
    pub default_fn: Option<(String, String)>,
}

#[derive(Clone, Debug)]
pub enum VKind {
    Unit,
    Newtype(Ty),
    Tuple(Vec<Ty>),
    Struct(Vec<Field>),
}

#[derive(Clone, Debug)]
pub struct Variant {
    pub name: String,
    pub kind: VKind,
    pub rename: Option<String>,
}

#[derive(Clone, Debug)]
pub enum Tagging {
    External,
    Internal(String),
    Adjacent(String, String),
    Untagged,
}

#[derive(Clone, Debug)]
pub enum Def {
    Struct { fields: Vec<Field>, rename_all: Option<&'static str>, deny: bool },
    TupleStruct(Vec<Ty>),
    Newtype(Ty),
    UnitStruct,
    Enum { tagging: Tagging, variants: Vec<Variant>, rename_all: Option<&'static str>, deny: bool },
}

pub struct Universe {
    pub defs: Vec<Def>,
}

const FIELD_NAMES: &[&str] = &["alpha", "beta_gamma", "count", "flag", "items", "label", "maybe", "nested", "other_one", "value", "xs", "y_pos"];
const VARIANT_NAMES: &[&str] = &["Apple", "BlueBerry", "Cherry", "DateFruit", "Elder", "FigTree"];
const RENAME_ALL: &[&str] = &["camelCase", "snake_case", "PascalCase", "SCREAMING_SNAKE_CASE", "kebab-case", "lowercase"];
const INTS: &[&str] = &["u8", "u16", "u32", "u64", "i8", "i16", "i32", "i64"];
const NZ: &[&str] = &["NonZeroU8", "NonZeroU16", "NonZeroU32", "NonZeroU64"];

pub fn type_name(i: usize) -> String {
    format!("T{i}")
}

fn scalar(g: &mut G) -> Ty {
    match g.weighted(&[2, 5, 1, 2, 1, 4, 1]) {
        0 => Ty::Bool,
        1 => Ty::Int(*g.pick(INTS)),
        2 => Ty::NonZero(*g.pick(NZ)),
        3 => Ty::F64,
        4 => Ty::F32,
        5 => Ty::Str,
        _ => Ty::Char,
    }
}

/// `idx`: the definition being generated; references to >= idx need
/// indirection (only through Vec / Option<Box<_>>), references to < idx are free.
fn ty(g: &mut G, n: usize, idx: usize, depth: usize) -> Ty {
    if depth >= 2 {
        return scalar(g);
    }
    match g.weighted(&[8, 3, 3, 2, 1, 2, 1, 1, if n > 1 || idx > 0 { 5 } else { 1 }]) {
        0 => scalar(g),
        1 => Ty::Opt(Box::new(ty(g, n, idx, depth + 1))),
        2 => Ty::Vec(Box::new(ty(g, n, idx, depth + 1))),
        3 => Ty::Map(Box::new(ty(g, n, idx, depth + 1)), g.chance(1, 2)),
        4 => Ty::Set(Box::new(if g.chance(1, 2) { Ty::Str } else { Ty::Int(*g.pick(INTS)) })),
        5 => Ty::Tuple((0..2 + g.below(2)).map(|_| ty(g, n, idx, depth + 1)).collect()),
        6 => Ty::Array(Box::new(scalar(g)), 1 + g.below(3)),
        7 => Ty::Boxed(Box::new(ty(g, n, idx, depth + 1))),
        _ => {
            // mostly references to earlier definitions; recursion now and then
            let t = if idx > 0 && g.chance(3, 4) { g.below(idx) } else { g.below(n) };
            if t < idx {
                Ty::Ref(t)
            } else {
                // recursion / forward reference through a heap type
                match g.below(4) {
                    0 => Ty::Vec(Box::new(Ty::Ref(t))),
                    // the boxed reference inside an unnamed tuple
                    1 => Ty::Tuple(vec![Ty::Int(*g.pick(INTS)), Ty::Opt(Box::new(Ty::Boxed(Box::new(Ty::Ref(t)))))]),
                    _ => Ty::Opt(Box::new(Ty::Boxed(Box::new(Ty::Ref(t))))),
                }
            }
        }
    }
}

fn mentions_ref(t: &Ty) -> bool {
    match t {
        Ty::Ref(_) => true,
        Ty::Opt(x) | Ty::Vec(x) | Ty::Set(x) | Ty::Boxed(x) | Ty::Array(x, _) | Ty::Map(x, _) => mentions_ref(x),
        Ty::Tuple(ts) => ts.iter().any(mentions_ref),
        _ => false,
    }
}

fn has_default(t: &Ty) -> bool {
    matches!(t, Ty::Bool | Ty::Int(_) | Ty::F64 | Ty::F32 | Ty::Str | Ty::Opt(_) | Ty::Vec(_) | Ty::Map(..) | Ty::Set(_) | Ty::Unit)
}

fn nested_option(t: &Ty) -> bool {
    match t {
        Ty::Opt(x) => {
            // (a Box is transparent on the wire)
            let mut y: &Ty = x;
            while let Ty::Boxed(z) = y {
                y = z;
            }
            matches!(y, Ty::Opt(_)) || nested_option(x)
        }
        Ty::Vec(x) | Ty::Set(x) | Ty::Boxed(x) | Ty::Array(x, _) | Ty::Map(x, _) => nested_option(x),
        Ty::Tuple(ts) => ts.iter().any(nested_option),
        _ => false,
    }
}

fn fields(g: &mut G, n: usize, idx: usize, max: usize) -> Vec<Field> {
    let k = 1 + g.below(max);
    let mut names: Vec<&str> = FIELD_NAMES.to_vec();
    g.shuffle(&mut names);
    names
        .into_iter()
        .take(k)
        .map(|name| {
            let t = ty(g, n, idx, 0);
            let is_opt = matches!(t, Ty::Opt(_));
            let default = has_default(&t) && g.chance(1, 4);
            // a custom default function returning a (usually non-empty) value of the field's
            // type; only for types without references (the value must be constructible here)
            let container = matches!(t, Ty::Map(..) | Ty::Vec(_) | Ty::Set(_) | Ty::Str);
            // (not for Option<Option<_>>: None and Some(None) share one wire form, so a custom
            // default of Some(None) makes "reads back as the same value" undecidable on the wire)
            let default_fn = if !default && has_default(&t) && !mentions_ref(&t) && !nested_option(&t) && g.chance(if container { 2 } else { 1 }, 4) {
                let empty = Universe { defs: vec![] };
                Some((format!("dflt_{}_{}_{}", idx, name, g.below(100000)), expr(g, &empty, &t, 1)))
            } else {
                None
            };
            Field {
                name: name.to_string(),
                rename: if g.chance(1, 6) { Some(format!("{}Renamed", name.replace('_', "-"))) } else { None },
                default,
                skip_none: is_opt && default_fn.is_none() && g.chance(1, 3),
                default_fn,
                ty: t,
            }
        })
        .collect()
}

pub fn universe(g: &mut G) -> Universe {
    let n = 2 + g.below(4);
    let mut defs = vec![];
    for idx in 0..n {
        let d = match g.weighted(&[5, 1, 1, 1, 6]) {
            0 => Def::Struct { fields: fields(g, n, idx, 4), rename_all: if g.chance(1, 3) { Some(*g.pick(RENAME_ALL)) } else { None }, deny: g.chance(1, 4) },
            1 => Def::TupleStruct((0..2 + g.below(2)).map(|_| ty(g, n, idx, 1)).collect()),
            2 => Def::Newtype(ty(g, n, idx, 0)),
            3 => Def::UnitStruct,
            _ => {
                let tagging = match g.below(4) {
                    0 => Tagging::External,
                    1 => Tagging::Internal("type".into()),
                    2 => {
                        // tag and content keys in either alphabetical order
                        let (t, c) = *g.pick(&[("t", "c"), ("kind", "value"), ("tag", "content"), ("a_tag", "z_body"), ("type", "data")]);
                        Tagging::Adjacent(t.into(), c.into())
                    }
                    _ => Tagging::Untagged,
                };
                let nv = 1 + g.below(4);
                let mut names: Vec<&str> = VARIANT_NAMES.to_vec();
                g.shuffle(&mut names);
                let structs_before: Vec<usize> = (0..idx).filter(|j| matches!(defs.get(*j), Some(Def::Struct { .. }))).collect();
                // untagged: one variant per JSON kind, so that the variants are mutually
                // exclusive (schemars emits anyOf; typify models non-exclusive anyOf
                // imprecisely -- a documented looseness, README "AnyOf": outside the claim)
                // (two tuple variants of different arity are exclusive as well: kinds 4 and 6)
                let mut json_kinds: Vec<usize> = vec![0, 1, 2, 3, 4, 5, 6];
                g.shuffle(&mut json_kinds);
                let variants = names
                    .into_iter()
                    .take(nv)
                    .enumerate()
                    .map(|(vi, name)| {
                        if matches!(tagging, Tagging::Untagged) {
                            let kind = match json_kinds[vi % json_kinds.len()] {
                                0 => VKind::Unit,
                                1 => VKind::Newtype(Ty::Str),
                                2 => VKind::Newtype(Ty::Int(*g.pick(INTS))),
                                3 => VKind::Newtype(Ty::Bool),
                                4 => VKind::Tuple((0..2).map(|_| scalar(g)).collect()),
                                6 => VKind::Tuple((0..3 + g.below(2)).map(|_| scalar(g)).collect()),
                                _ => VKind::Struct(fields(g, n, idx, 3)),
                            };
                            return Variant { name: name.to_string(), kind, rename: None };
                        }
                        let kind = match (&tagging, g.below(4)) {
                            (_, 0) => VKind::Unit,
                            (Tagging::Internal(_), 1) | (Tagging::Internal(_), 2) => {
                                // newtype variants of internally tagged enums must hold a struct; no tuple variants
                                if let Some(s) = structs_before.first() {
                                    VKind::Newtype(Ty::Ref(*s))
                                } else {
                                    VKind::Struct(fields(g, n, idx, 3))
                                }
                            }
                            (_, 1) => VKind::Newtype(ty(g, n, idx, 0)),
                            (_, 2) => VKind::Tuple((0..2 + g.below(2)).map(|_| ty(g, n, idx, 1)).collect()),
                            // a struct variant without fields (`V {}`) is not a unit variant on the wire
                            _ if g.chance(1, 3) => VKind::Struct(vec![]),
                            _ => VKind::Struct(fields(g, n, idx, 3)),
                        };
                        Variant { name: name.to_string(), kind, rename: if g.chance(1, 6) { Some(format!("{}-x", name.to_lowercase())) } else { None } }
                    })
                    .collect();
                Def::Enum { tagging, variants, rename_all: if g.chance(1, 3) { Some(*g.pick(RENAME_ALL)) } else { None }, deny: g.chance(1, 5) }
            }
        };
        defs.push(d);
    }
    Universe { defs }
}

// ---------------------------------------------------------------------------
// rendering

pub fn ty_src(t: &Ty) -> String {
    match t {
        Ty::Bool => "bool".into(),
        Ty::Int(n) => n.to_string(),
        Ty::NonZero(n) => format!("std::num::{n}"),
        Ty::F64 => "f64".into(),
        Ty::F32 => "f32".into(),
        Ty::Str => "String".into(),
        Ty::Char => "char".into(),
        Ty::Unit => "()".into(),
        Ty::Opt(t) => format!("Option<{}>", ty_src(t)),
        Ty::Vec(t) => format!("Vec<{}>", ty_src(t)),
        Ty::Map(t, b) => format!("std::collections::{}<String, {}>", if *b { "BTreeMap" } else { "HashMap" }, ty_src(t)),
        Ty::Set(t) => format!("std::collections::BTreeSet<{}>", ty_src(t)),
        Ty::Tuple(ts) => format!("({},)", ts.iter().map(ty_src).collect::<Vec<_>>().join(", ")),
        Ty::Array(t, n) => format!("[{}; {}]", ty_src(t), n),
        Ty::Boxed(t) => format!("Box<{}>", ty_src(t)),
        Ty::Ref(i) => type_name(*i),
    }
}

fn field_src(f: &Field, public: bool) -> String {
    let mut attrs = vec![];
    if let Some(r) = &f.rename {
        attrs.push(format!("rename = {:?}", r));
    }
    if f.default {
        attrs.push("default".into());
    }
    if let Some((name, _)) = &f.default_fn {
        attrs.push(format!("default = {:?}", name));
    }
    if f.skip_none {
        attrs.push("skip_serializing_if = \"Option::is_none\"".into());
        if !f.default {
            attrs.push("default".into());
        }
    }
    let a = if attrs.is_empty() { String::new() } else { format!("#[serde({})] ", attrs.join(", ")) };
    format!("    {a}{}{}: {},\n", if public { "pub " } else { "" }, f.name, ty_src(&f.ty))
}

fn default_fns(fs: &[Field]) -> String {
    fs.iter().filter_map(|f| f.default_fn.as_ref().map(|(n, e)| format!("pub fn {n}() -> {} {{ {e} }}\n", ty_src(&f.ty)))).collect()
}

pub fn def_src(i: usize, d: &Def) -> String {
    let mut s = def_src_inner(i, d);
    match d {
        Def::Struct { fields, .. } => s.push_str(&default_fns(fields)),
        Def::Enum { variants, .. } => {
            for v in variants {
                if let VKind::Struct(fs) = &v.kind {
                    s.push_str(&default_fns(fs));
                }
            }
        }
        _ => {}
    }
    s
}

fn def_src_inner(i: usize, d: &Def) -> String {
    let name = type_name(i);
    let derive = "#[derive(serde::Serialize, serde::Deserialize, schemars::JsonSchema, PartialEq, Debug, Clone)]\n";
    let mut s = String::from(derive);
    match d {
        Def::Struct { fields, rename_all, deny } => {
            let mut attrs = vec![];
            if let Some(r) = rename_all {
                attrs.push(format!("rename_all = {:?}", r));
            }
            if *deny {
                attrs.push("deny_unknown_fields".into());
            }
            if !attrs.is_empty() {
                s.push_str(&format!("#[serde({})]\n", attrs.join(", ")));
            }
            s.push_str(&format!("pub struct {name} {{\n"));
            for f in fields {
                s.push_str(&field_src(f, true));
            }
            s.push_str("}\n");
        }
        Def::TupleStruct(ts) => s.push_str(&format!("pub struct {name}({});\n", ts.iter().map(|t| format!("pub {}", ty_src(t))).collect::<Vec<_>>().join(", "))),
        Def::Newtype(t) => s.push_str(&format!("pub struct {name}(pub {});\n", ty_src(t))),
        Def::UnitStruct => s.push_str(&format!("pub struct {name};\n")),
        Def::Enum { tagging, variants, rename_all, deny } => {
            let mut attrs = vec![];
            match tagging {
                Tagging::External => {}
                Tagging::Internal(t) => attrs.push(format!("tag = {:?}", t)),
                Tagging::Adjacent(t, c) => attrs.push(format!("tag = {:?}, content = {:?}", t, c)),
                Tagging::Untagged => attrs.push("untagged".into()),
            }
            if let Some(r) = rename_all {
                attrs.push(format!("rename_all = {:?}", r));
            }
            if *deny {
                attrs.push("deny_unknown_fields".into());
            }
            if !attrs.is_empty() {
                s.push_str(&format!("#[serde({})]\n", attrs.join(", ")));
            }
            s.push_str(&format!("pub enum {name} {{\n"));
            for v in variants {
                if let Some(r) = &v.rename {
                    s.push_str(&format!("    #[serde(rename = {:?})]\n", r));
                }
                match &v.kind {
                    VKind::Unit => s.push_str(&format!("    {},\n", v.name)),
                    VKind::Newtype(t) => s.push_str(&format!("    {}({}),\n", v.name, ty_src(t))),
                    VKind::Tuple(ts) => s.push_str(&format!("    {}({}),\n", v.name, ts.iter().map(ty_src).collect::<Vec<_>>().join(", "))),
                    VKind::Struct(fs) => {
                        s.push_str(&format!("    {} {{\n", v.name));
                        for f in fs {
                            s.push_str(&format!("    {}", field_src(f, false)));
                        }
                        s.push_str("    },\n");
                    }
                }
            }
            s.push_str("}\n");
        }
    }
    s
}

// ---------------------------------------------------------------------------
// sample values as Rust expressions

pub fn expr(g: &mut G, u: &Universe, t: &Ty, depth: usize) -> String {
    match t {
        Ty::Bool => if g.chance(1, 2) { "true" } else { "false" }.into(),
        Ty::Int(n) => {
            let v = match g.below(4) {
                0 => format!("{n}::MAX"),
                1 => format!("{n}::MIN"),
                2 => format!("{} as {n}", g.range(0, 100)),
                _ => format!("0 as {n}"),
            };
            v
        }
        Ty::NonZero(n) => format!("std::num::{n}::new({}).unwrap()", 1 + g.below(200)),
        Ty::F64 => format!("{}f64", *g.pick(&["0.5", "-12.25", "1e10", "3.0", "0.0"])),
        Ty::F32 => format!("{}f32", *g.pick(&["0.5", "-12.25", "3.0", "0.0"])),
        Ty::Str => format!("{:?}.to_string()", *g.pick(&["", "hello", "héllo wörld", "a\"quote", "名前"])),
        Ty::Char => format!("{:?}", *g.pick(&['a', 'é', '名', '0'])),
        Ty::Unit => "()".into(),
        Ty::Opt(inner) => {
            if depth > 3 || g.chance(1, 3) {
                "None".into()
            } else {
                format!("Some({})", expr(g, u, inner, depth + 1))
            }
        }
        Ty::Vec(inner) => {
            let n = if depth > 2 { 0 } else { g.below(3) };
            format!("vec![{}]", (0..n).map(|_| expr(g, u, inner, depth + 1)).collect::<Vec<_>>().join(", "))
        }
        Ty::Map(inner, b) => {
            let n = if depth > 2 { 0 } else { g.below(3) };
            let items: Vec<String> = (0..n).map(|i| format!("(\"k{i}\".to_string(), {})", expr(g, u, inner, depth + 1))).collect();
            format!("[{}].into_iter().collect::<std::collections::{}<String, _>>()", items.join(", "), if *b { "BTreeMap" } else { "HashMap" })
        }
        Ty::Set(inner) => {
            let n = g.below(3);
            let items: Vec<String> = (0..n)
                .map(|i| match **inner {
                    Ty::Str => format!("\"s{i}\".to_string()"),
                    _ => format!("{} as {}", i * 3, ty_src(inner)),
                })
                .collect();
            format!("[{}].into_iter().collect::<std::collections::BTreeSet<_>>()", items.join(", "))
        }
        Ty::Tuple(ts) => format!("({},)", ts.iter().map(|t| expr(g, u, t, depth + 1)).collect::<Vec<_>>().join(", ")),
        Ty::Array(inner, n) => format!("[{}]", (0..*n).map(|_| expr(g, u, inner, depth + 1)).collect::<Vec<_>>().join(", ")),
        Ty::Boxed(inner) => format!("Box::new({})", expr(g, u, inner, depth + 1)),
        Ty::Ref(i) => def_expr(g, u, *i, depth + 1),
    }
}

fn fields_expr(g: &mut G, u: &Universe, fs: &[Field], depth: usize) -> String {
    fs.iter()
        .map(|f| {
            // next to a custom default: the empty value, half of the time
            let e = if f.default_fn.is_some() && g.chance(1, 2) { empty_expr(&f.ty).unwrap_or_else(|| expr(g, u, &f.ty, depth)) } else { expr(g, u, &f.ty, depth) };
            format!("{}: {}", f.name, e)
        })
        .collect::<Vec<_>>()
        .join(", ")
}

fn empty_expr(t: &Ty) -> Option<String> {
    Some(match t {
        Ty::Map(..) | Ty::Vec(_) | Ty::Set(_) => "Default::default()".to_string(),
        Ty::Str => "String::new()".to_string(),
        Ty::Opt(_) => "None".to_string(),
        Ty::Int(n) => format!("0 as {n}"),
        Ty::Bool => "false".to_string(),
        _ => return None,
    })
}

pub fn def_expr(g: &mut G, u: &Universe, i: usize, depth: usize) -> String {
    let name = type_name(i);
    match &u.defs[i] {
        Def::Struct { fields, .. } => format!("{name} {{ {} }}", fields_expr(g, u, fields, depth)),
        Def::TupleStruct(ts) => format!("{name}({})", ts.iter().map(|t| expr(g, u, t, depth)).collect::<Vec<_>>().join(", ")),
        Def::Newtype(t) => format!("{name}({})", expr(g, u, t, depth)),
        Def::UnitStruct => name,
        Def::Enum { variants, .. } => {
            // past the depth budget prefer a unit variant when there is one
            let v = if depth > 3 { variants.iter().find(|v| matches!(v.kind, VKind::Unit)).unwrap_or(&variants[0]) } else { g.pick(variants) };
            match &v.kind {
                VKind::Unit => format!("{name}::{}", v.name),
                VKind::Newtype(t) => format!("{name}::{}({})", v.name, expr(g, u, t, depth)),
                VKind::Tuple(ts) => format!("{name}::{}({})", v.name, ts.iter().map(|t| expr(g, u, t, depth)).collect::<Vec<_>>().join(", ")),
                VKind::Struct(fs) => format!("{name}::{} {{ {} }}", v.name, fields_expr(g, u, fs, depth)),
            }
        }
    }
}

/// Source of one universe module with `dump` and `verify` entry points.
pub fn module_src(g: &mut G, k: usize, u: &Universe, samples_per_type: usize) -> String {
    let mut s = format!("pub mod u{k} {{\n#![allow(dead_code, unused_imports)]\n");
    for (i, d) in u.defs.iter().enumerate() {
        s.push_str(&def_src(i, d));
    }
    for i in 0..u.defs.len() {
        let name = type_name(i);
        let exprs: Vec<String> = (0..samples_per_type).map(|_| def_expr(g, u, i, 0)).collect();
        s.push_str(&format!("pub fn samples_{name}() -> Vec<{name}> {{ vec![{}] }}\n", exprs.join(",\n    ")));
    }
    s.push_str("pub fn dump() {\n");
    for i in 0..u.defs.len() {
        let name = type_name(i);
        s.push_str(&format!("    crate::dump_type::<{name}>({k}, {i}, samples_{name}());\n"));
    }
    s.push_str("}\npub fn verify(t: usize, i: usize, w: &serde_json::Value) -> Option<bool> {\n    match t {\n");
    for i in 0..u.defs.len() {
        let name = type_name(i);
        s.push_str(&format!("        {i} => crate::verify_type::<{name}>(samples_{name}(), i, w),\n"));
    }
    s.push_str("        _ => None,\n    }\n}\n}\n");
    s
}

pub const ORIGIN_MAIN: &str = r#"
use std::io::BufRead;
pub fn dump_type<T: serde::Serialize + serde::de::DeserializeOwned + schemars::JsonSchema + PartialEq>(u: usize, t: usize, samples: Vec<T>) {
    let schema = schemars::schema_for!(T);
    let vals: Vec<serde_json::Value> = samples.iter().map(|x| serde_json::to_value(x).unwrap_or(serde_json::Value::Null)).collect();
    // a sample is kept only if the original type itself round-trips it
    let rt: Vec<bool> = samples.iter().zip(vals.iter()).map(|(x, v)| {
        let text = serde_json::to_string(x).unwrap_or_default();
        match (serde_json::from_str::<T>(&text), serde_json::from_value::<T>(v.clone())) { (Ok(y), Ok(z)) => &y == x && &z == x, _ => false }
    }).collect();
    println!("{}", serde_json::json!({"u": u, "t": t, "schema": schema, "samples": vals, "roundtrips": rt}));
}
pub fn verify_type<T: serde::de::DeserializeOwned + PartialEq>(samples: Vec<T>, i: usize, w: &serde_json::Value) -> Option<bool> {
    let x = samples.get(i)?;
    Some(match serde_json::from_str::<T>(&w.to_string()) { Ok(y) => &y == x, Err(_) => false })
}
fn main() {
    let mode = std::env::args().nth(1).unwrap_or_default();
    if mode == "dump" { dump_all(); return; }
    for line in std::io::stdin().lock().lines() {
        let Ok(line) = line else { break };
        let Ok(v) = serde_json::from_str::<serde_json::Value>(&line) else { println!("null"); continue };
        let r = verify_any(v["u"].as_u64().unwrap_or(0) as usize, v["t"].as_u64().unwrap_or(0) as usize, v["i"].as_u64().unwrap_or(0) as usize, &v["w"]);
        println!("{}", serde_json::json!({"ok": r}));
    }
}
"#;
