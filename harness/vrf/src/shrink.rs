//! Batched greedy structural shrinker (DESIGN.md §3.2): ddmin specialised to
//! JSON trees. Deterministic. A candidate is kept only if the *full* pipeline
//! (including python and rustc where the property uses them) reproduces the
//! same failure symptom.

use serde_json::Value;

#[derive(Clone, Debug)]
pub enum Seg {
    Key(String),
    Idx(usize),
}

#[derive(Clone, Debug)]
pub enum Op {
    Delete(Vec<Seg>),
    Replace(Vec<Seg>, Value),
}

impl Op {
    fn path(&self) -> &Vec<Seg> {
        match self {
            Op::Delete(p) | Op::Replace(p, _) => p,
        }
    }
}

fn size(v: &Value) -> usize {
    match v {
        Value::Array(a) => 1 + a.iter().map(size).sum::<usize>(),
        Value::Object(o) => 1 + o.iter().map(|(k, v)| 1 + k.len() / 8 + size(v)).sum::<usize>(),
        Value::String(s) => 1 + s.len() / 8,
        _ => 1,
    }
}

pub fn case_size(v: &Value) -> usize {
    size(v)
}

fn get_mut<'a>(v: &'a mut Value, path: &[Seg]) -> Option<&'a mut Value> {
    let mut cur = v;
    for s in path {
        cur = match s {
            Seg::Key(k) => cur.as_object_mut()?.get_mut(k)?,
            Seg::Idx(i) => cur.as_array_mut()?.get_mut(*i)?,
        };
    }
    Some(cur)
}

pub fn apply(v: &Value, op: &Op) -> Option<Value> {
    let mut out = v.clone();
    match op {
        Op::Delete(path) => {
            let (last, parent) = path.split_last()?;
            let p = get_mut(&mut out, parent)?;
            match last {
                Seg::Key(k) => {
                    p.as_object_mut()?.remove(k)?;
                }
                Seg::Idx(i) => {
                    let a = p.as_array_mut()?;
                    if *i >= a.len() {
                        return None;
                    }
                    a.remove(*i);
                }
            }
        }
        Op::Replace(path, nv) => {
            let t = get_mut(&mut out, path)?;
            if t == nv {
                return None;
            }
            *t = nv.clone();
        }
    }
    Some(out)
}

/// Apply several ops at once (deepest / right-most first; ops nested inside an
/// already rewritten subtree are skipped).
pub fn apply_all(v: &Value, ops: &[Op]) -> Value {
    let mut ops: Vec<&Op> = ops.iter().collect();
    let key = |op: &Op| -> Vec<(usize, String)> {
        op.path()
            .iter()
            .map(|s| match s {
                Seg::Key(k) => (0usize, k.clone()),
                Seg::Idx(i) => (*i, String::new()),
            })
            .collect()
    };
    ops.sort_by(|a, b| key(b).cmp(&key(a)));
    let mut out = v.clone();
    let mut done: Vec<Vec<(usize, String)>> = vec![];
    for op in ops {
        let k = key(op);
        // skip when an ancestor or descendant path was already rewritten
        if done.iter().any(|d| d.starts_with(&k) || k.starts_with(d)) {
            continue;
        }
        if let Some(n) = apply(&out, op) {
            out = n;
            done.push(k);
        }
    }
    out
}

/// Keys whose *values* are never touched (only whole-entry deletion).
fn protected_key(k: &str) -> bool {
    matches!(k, "op" | "root" | "step")
}

fn walk(v: &Value, path: &mut Vec<Seg>, ops: &mut Vec<(usize, Op)>, depth: usize) {
    match v {
        Value::Object(o) => {
            for (k, c) in o {
                path.push(Seg::Key(k.clone()));
                if !protected_key(k) {
                    if depth > 0 {
                        ops.push((size(c) + 1, Op::Delete(path.clone())));
                    }
                    // hoist a child over its parent value: handled by parent below
                    walk(c, path, ops, depth + 1);
                }
                path.pop();
            }
            // replace this object by one of its object/array-valued children
            // (unwrap a combinator, replace a subschema by a nested one)
            if depth > 1 {
                for (k, c) in o {
                    if protected_key(k) {
                        continue;
                    }
                    match c {
                        Value::Object(_) => ops.push((size(v) - size(c), Op::Replace(path.clone(), c.clone()))),
                        Value::Array(a) => {
                            for e in a {
                                if e.is_object() {
                                    ops.push((size(v) - size(e), Op::Replace(path.clone(), e.clone())));
                                }
                            }
                        }
                        _ => {}
                    }
                }
                if !o.is_empty() {
                    ops.push((size(v) - 1, Op::Replace(path.clone(), Value::Object(Default::default()))));
                }
            }
        }
        Value::Array(a) => {
            for (i, c) in a.iter().enumerate() {
                path.push(Seg::Idx(i));
                ops.push((size(c), Op::Delete(path.clone())));
                walk(c, path, ops, depth + 1);
                path.pop();
            }
        }
        Value::String(s) => {
            let n = s.chars().count();
            if n > 1 {
                let half: String = s.chars().take(n / 2).collect();
                ops.push((1, Op::Replace(path.clone(), Value::String(half))));
                let tail: String = s.chars().skip(1).collect();
                ops.push((1, Op::Replace(path.clone(), Value::String(tail))));
            }
        }
        Value::Number(nm) => {
            if nm.as_f64().map(|f| f != 0.0).unwrap_or(false) {
                ops.push((0, Op::Replace(path.clone(), Value::from(0))));
            }
        }
        _ => {}
    }
}

/// All one-step reductions, largest gain first, capped.
pub fn reductions(v: &Value, cap: usize) -> Vec<Op> {
    let mut ops = vec![];
    walk(v, &mut vec![], &mut ops, 0);
    ops.sort_by(|a, b| b.0.cmp(&a.0));
    ops.truncate(cap);
    ops.into_iter().map(|(_, o)| o).collect()
}

/// `eval(candidates) -> for each candidate: does it reproduce?`
pub fn shrink(
    start: &Value,
    max_rounds: usize,
    cap: usize,
    mut eval: impl FnMut(&[Value]) -> Vec<bool>,
) -> (Value, usize) {
    let mut cur = start.clone();
    let mut rounds = 0;
    while rounds < max_rounds {
        rounds += 1;
        let ops = reductions(&cur, cap);
        if ops.is_empty() {
            break;
        }
        let cands: Vec<(Op, Value)> = ops
            .into_iter()
            .filter_map(|op| apply(&cur, &op).map(|v| (op, v)))
            .filter(|(_, v)| size(v) < size(&cur) || v != &cur)
            .collect();
        if cands.is_empty() {
            break;
        }
        let vals: Vec<Value> = cands.iter().map(|(_, v)| v.clone()).collect();
        let ok = eval(&vals);
        let good: Vec<Op> = cands
            .iter()
            .zip(ok.iter())
            .filter(|(_, k)| **k)
            .map(|((op, _), _)| op.clone())
            .collect();
        if good.is_empty() {
            break;
        }
        if good.len() == 1 {
            cur = apply(&cur, &good[0]).unwrap();
            continue;
        }
        // combos: all, half, quarter, ... 1 (good is ordered by gain)
        let mut ks = vec![];
        let mut k = good.len();
        while k >= 1 {
            ks.push(k);
            if k == 1 {
                break;
            }
            k /= 2;
        }
        let combos: Vec<Value> = ks.iter().map(|k| apply_all(&cur, &good[..*k])).collect();
        rounds += 1;
        let ok2 = eval(&combos);
        let mut advanced = false;
        for (c, k) in combos.into_iter().zip(ok2) {
            if k && size(&c) < size(&cur) {
                cur = c;
                advanced = true;
                break;
            }
        }
        if !advanced {
            cur = apply(&cur, &good[0]).unwrap();
        }
    }
    (cur, rounds)
}
