//! Coverage-guided stage (DESIGN.md §5.20): the libFuzzer target in
//! `/verif/harness/fuzz` hands its bytes to the *same* structured generators
//! the proptest-seeded search uses (`G::from_bytes`), runs the in-process half
//! of a property's oracle (`Property::prepare`) on the decoded case and records
//! every case whose violation is not attributed to a listed known finding.
//! Nothing is decided here: recorded cases and the distilled corpus are decoded
//! to JSON (`vrf fuzz-decode`) and go through the normal engine (sub-process
//! isolation, rustc, python, shrinking, known-finding attribution, replay
//! files) as extra cases of the thorough tier.

use crate::engine::{self, KnownFinding, Property};
use crate::gen::G;
use crate::ingest;
use serde_json::{json, Value};
use std::collections::{BTreeMap, BTreeSet};
use std::sync::atomic::{AtomicBool, Ordering};
use std::sync::{Mutex, OnceLock};

/// Set inside the fuzz target: property code must not spawn helper processes.
pub static IN_FUZZ: AtomicBool = AtomicBool::new(false);

pub fn in_fuzz() -> bool {
    IN_FUZZ.load(Ordering::Relaxed)
}

/// Properties with an in-process oracle half and a per-case generator.
pub const FUZZ_PROPS: &[&str] = &["C01", "C07", "C08", "C12", "C16", "C17", "C19"];

pub fn decode(prop: &dyn Property, data: &[u8]) -> Option<Value> {
    let mut g = G::from_bytes(data);
    prop.fuzz_gen(&mut g)
}

struct State {
    prop: Box<dyn Property + Send>,
    findings: Vec<KnownFinding>,
    out: String,
    stats: Mutex<Stats>,
}

#[derive(Default)]
struct Stats {
    execs: u64,
    decoded: u64,
    nontrivial: u64,
    distinct_nontrivial: BTreeSet<u64>,
    outcomes: BTreeMap<String, u64>,
    classes: BTreeMap<String, u64>,
    known: BTreeMap<String, u64>,
    harness_panics: u64,
    recorded: u64,
    recorded_symptoms: BTreeMap<String, u64>,
}

static STATE: OnceLock<State> = OnceLock::new();

fn state() -> &'static State {
    STATE.get_or_init(|| {
        IN_FUZZ.store(true, Ordering::Relaxed);
        // replaces libFuzzer's abort-on-panic hook: typify's own panics on
        // unsupported schemas are outcomes (caught by `guarded`), not crashes
        ingest::install_panic_hook();
        let id = std::env::var("VRF_FUZZ_PROP").unwrap_or_else(|_| "C16".into());
        let prop = crate::props::lookup(&id).unwrap_or_else(|| {
            eprintln!("INFRA: unknown property {id}");
            std::process::exit(2)
        });
        let out = std::env::var("VRF_FUZZ_OUT").unwrap_or_else(|_| format!("/verif/work/fuzz/{id}/out"));
        std::fs::create_dir_all(&out).ok();
        let findings = engine::load_findings().into_iter().filter(|f| f.properties.iter().any(|p| p == &id)).collect();
        State { prop, findings, out, stats: Mutex::new(Stats::default()) }
    })
}

type Reply = Result<Option<(Value, crate::engine::Unit)>, String>;

fn runner() -> &'static (Mutex<std::sync::mpsc::Sender<Vec<u8>>>, Mutex<std::sync::mpsc::Receiver<Reply>>) {
    static R: OnceLock<(Mutex<std::sync::mpsc::Sender<Vec<u8>>>, Mutex<std::sync::mpsc::Receiver<Reply>>)> = OnceLock::new();
    R.get_or_init(|| {
        let (tx, rx_in) = std::sync::mpsc::channel::<Vec<u8>>();
        let (tx_out, rx) = std::sync::mpsc::channel::<Reply>();
        std::thread::Builder::new()
            .stack_size(512 << 20)
            .spawn(move || {
                let prop: &dyn Property = state().prop.as_ref();
                for data in rx_in {
                    let r = ingest::guarded(|| {
                        let case = decode(prop, &data)?;
                        let unit = prop.prepare(&case);
                        Some((case, unit))
                    });
                    if tx_out.send(r).is_err() {
                        break;
                    }
                }
            })
            .expect("spawn");
        (Mutex::new(tx), Mutex::new(rx))
    })
}

fn hash(s: &str) -> u64 {
    use std::hash::{Hash, Hasher};
    let mut h = std::collections::hash_map::DefaultHasher::new();
    s.hash(&mut h);
    h.finish()
}

/// One libFuzzer iteration.
pub fn target(data: &[u8]) {
    let st = state();
    let prop: &dyn Property = st.prop.as_ref();
    // typify recurses deeply on nested documents: a persistent thread with a large stack
    let res: Result<Result<Option<(Value, crate::engine::Unit)>, String>, ()> = {
        let (tx, rx) = runner();
        if tx.lock().unwrap().send(data.to_vec()).is_err() {
            Err(())
        } else {
            rx.lock().unwrap().recv().map_err(|_| ())
        }
    };
    let mut stats = st.stats.lock().unwrap();
    stats.execs += 1;
    match res {
        Ok(Ok(Some((case, unit)))) => {
            stats.decoded += 1;
            *stats.outcomes.entry(format!("{:?}", unit.outcome).to_lowercase()).or_default() += 1;
            for c in &unit.classes {
                *stats.classes.entry(c.clone()).or_default() += 1;
            }
            if unit.nontrivial {
                stats.nontrivial += 1;
                stats.distinct_nontrivial.insert(hash(&prop.distinct_key(&case)));
            }
            for v in &unit.violations {
                if let Some(f) = st.findings.iter().find(|f| f.status.starts_with("open") && engine::symptom_matches(&f.symptom, &v.symptom) && prop.predicate(&f.predicate, &case, v)) {
                    *stats.known.entry(f.id.clone()).or_default() += 1;
                    continue;
                }
                let n = stats.recorded_symptoms.entry(v.symptom.clone()).or_default();
                *n += 1;
                // a handful per symptom is enough: the engine shrinks one
                if *n <= 5 {
                    stats.recorded += 1;
                    let name = format!("{}/viol-{:016x}.json", st.out, hash(&case.to_string()));
                    let _ = std::fs::write(name, json!({"case": case, "symptom": v.symptom, "detail": v.detail}).to_string());
                }
            }
        }
        Ok(Ok(None)) => {}
        // a panic outside `guarded` sections of the harness itself, or a
        // panic of typify on a path the property code does not guard: the
        // input is kept; the engine decides in a sub-process what it is
        Ok(Err(p)) => {
            stats.harness_panics += 1;
            if stats.harness_panics <= 20 {
                let _ = std::fs::write(format!("{}/panic-{:016x}.bin", st.out, hash(&format!("{data:?}"))), data);
                let _ = std::fs::write(format!("{}/panic-{:016x}.txt", st.out, hash(&format!("{data:?}"))), p);
            }
        }
        Err(_) => {
            stats.harness_panics += 1;
        }
    }
    if stats.execs % 200 == 0 || stats.execs < 20 {
        write_stats(st, &stats);
    }
}

fn write_stats(st: &State, s: &Stats) {
    let v = json!({
        "pid": std::process::id(),
        "execs": s.execs,
        "decoded": s.decoded,
        "nontrivial": s.nontrivial,
        "distinct_nontrivial": s.distinct_nontrivial.len(),
        "outcomes": s.outcomes,
        "classes": s.classes,
        "attributed_to_known_findings": s.known,
        "harness_panics": s.harness_panics,
        "recorded_cases": s.recorded,
        "recorded_symptoms": s.recorded_symptoms,
    });
    let _ = std::fs::write(format!("{}/stats-{}.json", st.out, std::process::id()), v.to_string());
}

/// `vrf fuzz-decode <ID> <dir of libFuzzer inputs> <out.jsonl> [max]`: decode
/// corpus files (largest first, at most `max`) into JSON cases, one per line.
pub fn decode_dir(prop: &dyn Property, dir: &str, out: &str, max: usize) -> Result<usize, String> {
    let mut files: Vec<(u64, std::path::PathBuf)> = std::fs::read_dir(dir)
        .map_err(|e| format!("{dir}: {e}"))?
        .flatten()
        .filter(|e| e.path().is_file())
        .map(|e| (e.metadata().map(|m| m.len()).unwrap_or(0), e.path()))
        .collect();
    files.sort_by(|a, b| b.0.cmp(&a.0).then(a.1.cmp(&b.1)));
    let mut seen = BTreeSet::new();
    let mut lines = String::new();
    let mut n = 0;
    for (_, p) in files {
        if n >= max {
            break;
        }
        let Ok(data) = std::fs::read(&p) else { continue };
        let Ok(Some(case)) = ingest::guarded(|| decode(prop, &data)) else { continue };
        let s = case.to_string();
        if seen.insert(hash(&s)) {
            lines.push_str(&s);
            lines.push('\n');
            n += 1;
        }
    }
    std::fs::write(out, lines).map_err(|e| format!("{out}: {e}"))?;
    Ok(n)
}
