//! Helpers shared by the property modules.

use crate::analyse::Index;
use crate::case::*;
use crate::compile::{drv_prelude, ModuleSrc};
use crate::engine::{Unit, Violation};
use crate::gen::schema as gs;
use crate::gen::G;
use crate::ingest::{self, Ingested, Outcome};
use serde_json::{json, Map, Value};

pub fn parse_case(v: &Value) -> Result<Case, String> {
    serde_json::from_value::<Case>(v.clone()).map_err(|e| format!("not a case: {e}"))
}

/// A unit for a case that is not even a well-formed case (shrinker candidates)
pub fn invalid_unit(msg: String) -> Unit {
    Unit { outcome: Outcome::Invalid, message: msg, ..Default::default() }
}

pub struct Rendered {
    pub file: syn::File,
    pub index: Index,
    pub text: String,
}

/// Render twice; report render panics / parse failures as violations.
pub fn render_checked(ing: &Ingested, violations: &mut Vec<Violation>) -> Option<Rendered> {
    match ingest::render(&ing.space) {
        Ok((tokens, file)) => {
            // second rendering of the same space must be identical
            match ingest::guarded(|| ing.space.to_stream()) {
                Ok(t2) => {
                    if t2.to_string() != tokens.to_string() {
                        violations.push(Violation::new("render-unstable", "two to_stream() calls on one TypeSpace differ"));
                    }
                }
                Err(p) => violations.push(Violation::new("render-panic", format!("second to_stream(): {p}"))),
            }
            let index = crate::analyse::index(&file);
            let text = match ingest::pretty(&file) {
                Ok(t) => t,
                Err(_) => tokens.to_string(),
            };
            Some(Rendered { file, index, text })
        }
        Err(e) => {
            let (sym, det) = if let Some(rest) = e.strip_prefix("render-panic: ") {
                ("render-panic", rest.to_string())
            } else {
                ("render-parse", e.clone())
            };
            violations.push(Violation::new(sym, det));
            None
        }
    }
}

/// Driver source: dispatch table over (root, op) with one arm per line.
/// Returns (source, line -> key) where key = "root:op".
pub struct Driver {
    pub arms: Vec<(usize, String, String)>, // (root, op, expression producing rt::R)
    pub extra_items: String,
    pub assert_lines: Vec<String>, // each: a statement placed in `fn __vrf_asserts()`
}

impl Driver {
    pub fn new() -> Driver {
        Driver { arms: vec![], extra_items: String::new(), assert_lines: vec![] }
    }
    pub fn arm(&mut self, root: usize, op: &str, helper: &str, ty: &str) {
        self.arms.push((root, op.to_string(), format!("crate::rt::{helper}::<{ty}>(arg)")));
    }
    pub fn arm_expr(&mut self, root: usize, op: &str, expr: String) {
        self.arms.push((root, op.to_string(), expr));
    }
    /// (source, Vec<(line_no, key)>)
    pub fn render(&self, type_mod: &Option<String>) -> (String, Vec<(usize, String)>) {
        let mut src = drv_prelude(type_mod);
        let mut keys = vec![];
        src.push_str("pub fn __vrf_dispatch(root: usize, op: &str, arg: &::serde_json::Value) -> ::std::result::Result<::std::string::String, ::std::string::String> {\n");
        src.push_str("    match (root, op) {\n");
        for (root, op, expr) in &self.arms {
            src.push_str(&format!("        ({root}, \"{op}\") => {expr},\n"));
            let line = src.matches('\n').count();
            keys.push((line, format!("arm:{root}:{op}")));
        }
        src.push_str("        _ => ::std::result::Result::Err(::std::string::String::from(\"HARNESS: no such probe\")),\n    }\n}\n");
        src.push_str("#[allow(dead_code)]\nfn __vrf_asserts() {\n");
        for (i, l) in self.assert_lines.iter().enumerate() {
            src.push_str(&format!("    {l}\n"));
            let line = src.matches('\n').count();
            keys.push((line, format!("assert:{i}")));
        }
        src.push_str("}\n");
        src.push_str(&self.extra_items);
        (src, keys)
    }
}

pub fn module(type_mod: &Option<String>, gen_rs: String, drv: &Driver) -> (ModuleSrc, Vec<(usize, String)>) {
    let (drv_rs, keys) = drv.render(type_mod);
    (ModuleSrc { type_mod: type_mod.clone(), gen_rs, drv_rs }, keys)
}

// ---------------------------------------------------------------------------
// settings / histories (DESIGN §4.4, §4.5)

pub const MAP_TYPES: &[&str] = &["::std::collections::BTreeMap", "crate::prelude::MyMap"];

/// Settings that never make a compile error the user's fault.
pub fn settings(g: &mut G, doc: &Value, rich: bool) -> Settings {
    let mut s = Settings::default();
    s.struct_builder = g.chance(1, 2);
    if g.chance(1, 3) {
        s.map_type = Some(g.pick(MAP_TYPES).to_string());
    }
    if g.chance(1, 4) {
        s.derives.push("PartialEq".into());
    }
    if g.chance(1, 5) {
        s.type_mod = Some(g.pick(&["types", "tm"]).to_string());
    }
    if !rich {
        return s;
    }
    let defs = gs::def_names(doc);
    if !defs.is_empty() && g.chance(1, 5) {
        let d = g.pick(&defs).clone();
        let name = crate::gen::names::sanitize_like(&d, true);
        // a per-type derive is only requested where the type can derive it
        // whatever its members are (otherwise the compile error is the
        // user's): PartialEq on a definition built from scalars only
        let scalar_only = scalars_only(&doc["definitions"][&d]);
        s.patch.insert(
            name.clone(),
            Patch {
                rename: if g.chance(2, 3) { Some(format!("Renamed{}", name)) } else { None },
                derives: if s.derives.contains(&"PartialEq".to_string()) {
                    // naming a derive again that the type gets anyway (settings-wide, or built in) is harmless
                    match g.below(3) {
                        0 => vec!["PartialEq".into()],
                        1 => vec!["Clone".into(), "Debug".into()],
                        _ => vec![],
                    }
                } else if scalar_only && g.chance(1, 2) {
                    vec!["PartialEq".into()]
                } else if g.chance(1, 4) {
                    vec!["Debug".into()]
                } else {
                    vec![]
                },
            },
        );
    }
    if !defs.is_empty() && g.chance(1, 6) {
        let d = g.pick(&defs).clone();
        let name = crate::gen::names::sanitize_like(&d, true);
        if !s.patch.contains_key(&name) {
            let impls = g.subset(&["FromStr".to_string(), "Display".to_string(), "Default".to_string()], 1, 2);
            s.replace.insert(name, Replace { ty: format!("crate::prelude::Mark{}", g.below(8)), impls });
        }
    }
    if g.chance(1, 8) {
        let schema = match g.below(3) {
            0 => json!({"type": "string"}),
            1 => json!({"type": "integer"}),
            _ => json!({"type": "boolean"}),
        };
        let impls = g.subset(&["FromStr".to_string(), "Display".to_string(), "Default".to_string()], 1, 2);
        s.convert.push(Convert { schema, ty: format!("crate::prelude::Mark{}", g.below(8)), impls });
    }
    s
}

/// Are these settings ones `settings()` can produce for some document with these definitions?
/// (Keeps shrunk cases inside the domain: a mangled derive name, marker path or module name
/// is a user error, not a finding.)
pub fn settings_in_domain(s: &Settings, all_defs: &Value) -> bool {
    let marker = |t: &str| t.strip_prefix("crate::prelude::Mark").map(|n| n.len() == 1 && n.chars().all(|c| ('0'..='7').contains(&c))).unwrap_or(false);
    let impls_ok = |v: &Vec<String>| v.iter().all(|i| matches!(i.as_str(), "FromStr" | "Display" | "Default"));
    if !s.derives.iter().all(|d| d == "PartialEq") || s.derives.len() > 1 {
        return false;
    }
    if !s.type_mod.as_deref().map(|t| t == "types" || t == "tm").unwrap_or(true) {
        return false;
    }
    if !s.map_type.as_deref().map(|m| MAP_TYPES.contains(&m)).unwrap_or(true) {
        return false;
    }
    let global_eq = s.derives.iter().any(|d| d == "PartialEq");
    for (name, p) in &s.patch {
        if !p.rename.as_deref().map(|r| r == format!("Renamed{name}")).unwrap_or(true) {
            return false;
        }
        if !p.derives.iter().all(|d| matches!(d.as_str(), "PartialEq" | "Clone" | "Debug")) {
            return false;
        }
        if p.derives.iter().any(|d| d == "PartialEq") && !global_eq {
            // only on a definition built from scalars
            let ok = all_defs.as_object().map(|o| o.iter().any(|(k, v)| &crate::gen::names::sanitize_like(k, true) == name && scalars_only(v))).unwrap_or(false);
            if !ok {
                return false;
            }
        }
    }
    s.replace.values().all(|r| marker(&r.ty) && impls_ok(&r.impls))
        && s.convert.iter().all(|c| marker(&c.ty) && impls_ok(&c.impls) && matches!(c.schema.to_string().as_str(), "{\"type\":\"string\"}" | "{\"type\":\"integer\"}" | "{\"type\":\"boolean\"}"))
        && s.crates.is_empty()
        && s.unknown_crates.is_none()
}

/// `settings_in_domain` for a case with an ingestion history.
pub fn case_settings_in_domain(case_v: &Value) -> bool {
    let Ok(case) = parse_case(case_v) else { return false };
    let doc = history_document(&case);
    settings_in_domain(&case.settings, &doc["definitions"])
}

/// Express a root document as one of the equivalent ingestion histories.
pub fn history(g: &mut G, doc: &Value) -> Vec<Step> {
    let defs = doc.get("definitions").cloned().unwrap_or(json!({}));
    let has_root = doc.get("title").is_some();
    match g.below(6) {
        4 | 5 => {
            // the definitions split by connected components of the reference graph into
            // several add_ref_types calls in random order (the documented precondition:
            // a batch is self-contained), then the root type if there is one
            let mut comps = super::c16::components(doc);
            g.shuffle(&mut comps);
            let mut groups: Vec<Vec<String>> = vec![];
            for c in comps {
                if groups.is_empty() || g.chance(2, 3) {
                    groups.push(c);
                } else {
                    let k = g.below(groups.len());
                    groups[k].extend(c);
                }
            }
            let mut h: Vec<Step> = groups
                .iter()
                .map(|grp| {
                    let mut m = Map::new();
                    for n in grp {
                        m.insert(n.clone(), doc["definitions"][n].clone());
                    }
                    Step::Refs { defs: Value::Object(m) }
                })
                .collect();
            if has_root {
                let mut root = doc.as_object().cloned().unwrap_or_default();
                root.remove("definitions");
                root.remove("$schema");
                let title = root.get("title").and_then(|t| t.as_str()).map(|s| s.to_string());
                h.push(Step::Type { schema: Value::Object(root), hint: title });
            }
            h
        }
        0 | 1 => vec![Step::Root { doc: doc.clone() }],
        2 => {
            let mut h = vec![Step::Refs { defs }];
            if has_root {
                let mut root = doc.as_object().cloned().unwrap_or_default();
                root.remove("definitions");
                root.remove("$schema");
                let title = root.get("title").and_then(|t| t.as_str()).map(|s| s.to_string());
                h.push(Step::Type { schema: Value::Object(root), hint: if g.chance(1, 2) { title } else { None } });
            }
            h
        }
        _ => {
            // definitions, then extra add_type calls referencing them
            let mut h = vec![Step::Refs { defs: defs.clone() }];
            let names = gs::def_names(doc);
            for n in names.iter().take(2) {
                let schema = match g.below(3) {
                    0 => json!({"$ref": format!("#/definitions/{n}")}),
                    1 => json!({"type": "array", "items": {"$ref": format!("#/definitions/{n}")}}),
                    _ => json!({"type": "object", "properties": {"it": {"$ref": format!("#/definitions/{n}")}}, "required": ["it"]}),
                };
                h.push(Step::Type { schema, hint: if g.chance(1, 2) { Some(format!("Extra{}", g.below(3))) } else { None } });
            }
            h
        }
    }
}

pub fn obj(v: &Value) -> Map<String, Value> {
    v.as_object().cloned().unwrap_or_default()
}

/// The merged document a history is about (for the python oracle): the union
/// of all definitions of Root/Refs steps.
pub fn history_document(case: &Case) -> Value {
    let mut defs = Map::new();
    let mut root = Map::new();
    for s in &case.history {
        match s {
            Step::Root { doc } => {
                if let Some(d) = doc.get("definitions").and_then(|d| d.as_object()) {
                    for (k, v) in d {
                        defs.insert(k.clone(), v.clone());
                    }
                }
                if let Some(d) = doc.get("$defs").and_then(|d| d.as_object()) {
                    root.insert("$defs".into(), Value::Object(d.clone()));
                }
            }
            Step::Refs { defs: d } => {
                if let Some(d) = d.as_object() {
                    for (k, v) in d {
                        defs.insert(k.clone(), v.clone());
                    }
                }
            }
            _ => {}
        }
    }
    root.insert("definitions".into(), Value::Object(defs));
    Value::Object(root)
}

/// true when a schema is a string/integer/boolean leaf, a string enum, or an
/// object whose properties are all such leaves (no refs, no combinators)
pub fn scalars_only(v: &Value) -> bool {
    let Some(o) = v.as_object() else { return false };
    let allowed: &[&str] = &["type", "properties", "required", "enum", "format", "description", "title"];
    if o.keys().any(|k| !allowed.contains(&k.as_str())) {
        return false;
    }
    match o.get("type").and_then(|t| t.as_str()) {
        Some("string") | Some("boolean") => true,
        Some("integer") => true,
        Some("object") => o.get("properties").and_then(|p| p.as_object()).map(|p| !p.is_empty() && p.values().all(|x| x.get("type").and_then(|t| t.as_str()).map(|t| matches!(t, "string" | "integer" | "boolean")).unwrap_or(false) && x.as_object().map(|m| m.keys().all(|k| matches!(k.as_str(), "type" | "format"))).unwrap_or(false))).unwrap_or(false),
        _ => false,
    }
}
