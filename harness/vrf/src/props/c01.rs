//! C01 -- every accepted schema yields Rust that compiles.

use super::common::*;
use crate::case::*;
use crate::compile::CompileStatus;
use crate::engine::*;
use crate::gen::{self, schema as gs, G};
use crate::ingest::{self, Outcome};
use crate::py::Py;
use serde_json::{json, Value};

pub struct C01;

pub fn gen_w_case(g: &mut G) -> Value {
    let cfg = gs::Cfg::wide();
    let doc = gs::document(g, &cfg);
    let settings = settings(g, &doc, true);
    let history = history(g, &doc);
    let case = Case { settings, history, extra: json!({"source": "W"}), ..Default::default() };
    gen::to_value(&case)
}

pub fn gen_f_case(g: &mut G) -> Value {
    let mut cfg = gs::Cfg::faithful();
    cfg.defaults = 0;
    let doc = gs::document(g, &cfg);
    let settings = settings(g, &doc, false);
    let history = history(g, &doc);
    let case = Case { settings, history, extra: json!({"source": "F"}), ..Default::default() };
    gen::to_value(&case)
}

impl Property for C01 {
    fn id(&self) -> &'static str {
        "C01"
    }
    fn rule(&self) -> String {
        "cases = (schema document, settings, ingestion history) drawn by proptest-seeded grammar generators (wide grammar W, faithful grammar F, small-scope enumeration, mutated repository fixtures); a case is non-trivial when ingestion succeeds and the output defines at least one struct/enum; distinct by canonical JSON of the case".into()
    }
    fn assumptions(&self) -> Vec<String> {
        vec![
            "rustc 1.80.1 (the repository's pinned toolchain) with serde, serde_json, chrono, uuid, regress is the judge of 'type-checks'".into(),
            "replacement/conversion/map types are stand-ins implementing every trait typify may require".into(),
            "ingestion errors and panics outside the supported fragment are counted, not judged".into(),
        ]
    }
    fn generate(&self, tier: Tier, seed: u64) -> Vec<Value> {
        let mut v = gen::draw(seed, "C01-W", tier.pick(260, 12000), gen_w_case);
        v.extend(gen::draw(seed, "C01-F", tier.pick(120, 5000), gen_f_case));
        // (d) documents emitted by real schemars for generated Rust universes:
        // inside the supported fragment, so a refusal is itself a violation
        match super::c04::schemars_cases("C01", seed, tier.pick(25, 600), 1) {
            Ok((docs, dropped)) => {
                gen::excluded("universes-not-compilable(generator)", dropped as u64);
                for d in docs {
                    let doc = d["schema"].clone();
                    // a self-referential root appears twice in the output (known finding KF-023)
                    if doc["title"].as_str().map(|t| doc["definitions"].get(t).is_some()).unwrap_or(false) && d["t"].as_u64().unwrap_or(0) % 2 == 0 {
                        gen::excluded("recursive-root-document", 1);
                        continue;
                    }
                    let history = if d["t"].as_u64().unwrap_or(0) % 2 == 0 {
                        vec![Step::Root { doc }]
                    } else {
                        let mut root = doc.as_object().cloned().unwrap_or_default();
                        let defs = root.remove("definitions").unwrap_or(json!({}));
                        root.remove("$schema");
                        let title = root.get("title").and_then(|t| t.as_str()).map(|s| s.to_string());
                        vec![Step::Refs { defs }, Step::Type { schema: Value::Object(root), hint: title }]
                    };
                    let case = Case { history, extra: json!({"source": "schemars", "supported": true}), ..Default::default() };
                    v.push(gen::to_value(&case));
                }
            }
            Err(e) => {
                eprintln!("INFRA: {e}");
                std::process::exit(2);
            }
        }
        v
    }
    fn fuzz_gen(&self, g: &mut G) -> Option<Value> {
        Some(if g.chance(2, 3) { gen_w_case(g) } else { gen_f_case(g) })
    }
    fn prepare(&self, case_v: &Value) -> Unit {
        let case = match parse_case(case_v) {
            Ok(c) => c,
            Err(e) => return invalid_unit(e),
        };
        let mut unit = Unit::default();
        let ing = ingest::ingest(&case);
        unit.outcome = ing.outcome.clone();
        unit.message = ing.message.clone();
        unit.classes.extend(case.features.iter().cloned());
        if let Some(src) = case.extra.get("source").and_then(|s| s.as_str()) {
            unit.classes.push(format!("source:{src}"));
        }
        if ing.outcome != Outcome::Ok {
            if case.extra.get("supported").and_then(|b| b.as_bool()).unwrap_or(false) && ing.outcome != Outcome::Invalid {
                unit.violations.push(Violation::new("supported-rejected", format!("{:?}: {}", ing.outcome, ing.message)));
            }
            return unit;
        }
        let Some(r) = render_checked(&ing, &mut unit.violations) else { return unit };
        unit.nontrivial = !r.index.items.is_empty();
        if case.settings.struct_builder {
            unit.classes.push("builder".into());
        }
        if case.history.len() > 1 {
            unit.classes.push("multi-step-history".into());
        }
        let drv = Driver::new();
        let (m, _) = module(&case.settings.type_mod, r.text, &drv);
        unit.module = Some(m);
        unit
    }
    fn judge(&self, _case: &Value, _unit: &Unit, compile: &CompileStatus, _probes: &[crate::compile::ProbeResult], _py: &mut Py) -> Result<Judged, String> {
        let mut j = Judged::default();
        if let CompileStatus::Failed(diags) = compile {
            for d in diags {
                if d.file == "drv" || d.file == "mod" {
                    return Err(format!("harness driver does not compile: {} {} | {}", d.code, d.message, d.snippet));
                }
            }
            // one violation per case: the primary error code (duplicate
            // definitions first, they explain most follow-up errors)
            let prio = |c: &str| match c {
                "E0428" => 0,
                "E0124" => 1,
                "E0062" => 2,
                "E0119" => 3,
                "E0072" => 4,
                _ => 5,
            };
            // a lexer error (a character the compiler does not accept in an identifier) explains
            // whatever follows it
            if let Some(d) = diags.iter().find(|d| d.message.starts_with("unknown start of token")) {
                j.violations.push(Violation::new("rustc:error", format!("{} | gen.rs:{} | {}", d.message, d.line, d.snippet)));
                return Ok(j);
            }
            let mut codes: Vec<String> = diags.iter().map(|d| if d.code.is_empty() { "error".to_string() } else { d.code.clone() }).collect();
            codes.sort_by(|a, b| (prio(a), a.clone()).cmp(&(prio(b), b.clone())));
            codes.dedup();
            let primary = codes[0].clone();
            let d = diags.iter().find(|d| d.code == primary || (d.code.is_empty() && primary == "error")).unwrap();
            j.violations.push(Violation::new(
                format!("rustc:{primary}"),
                format!("{} | gen.rs:{} | {} | all codes: {}", d.message, d.line, d.snippet, codes.join(",")),
            ));
        }
        Ok(j)
    }
    fn in_domain(&self, case: &Value) -> bool {
        case_settings_in_domain(case)
    }
    fn predicate(&self, name: &str, case: &Value, v: &Violation) -> bool {
        super::predicates::check(name, case, v)
    }
}
