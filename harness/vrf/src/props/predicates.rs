//! Predicates over (shrunk) cases used to attribute a violation to a known
//! finding (DESIGN.md §3.5). A violation is attributed only when the symptom
//! matches *and* the predicate holds; anything else is reported normally.

use crate::engine::Violation;
use serde_json::Value;

pub fn check(name: &str, case: &Value, v: &Violation) -> bool {
    match name {
        "inline_type_under_name_without_alphanumerics" => {
            case.get("use").and_then(|u| u.as_str()) == Some("prop")
                && case.get("ptype").and_then(|t| t.as_u64()) == Some(7)
                && case.get("names").and_then(|n| n.as_array()).and_then(|a| a.first()).and_then(|x| x.as_str()).map(|n| crate::gen::names::heck_pascal(&n.replace('\'', "").replace(|c: char| !unicode_ident::is_xid_continue(c), "-")).is_empty()).unwrap_or(false)
        }
        // KF-025: an identifier character the pinned rustc (Unicode 15.1) does not know yet
        "identifier_char_unknown_to_pinned_rustc" => (v.detail.contains("unknown start of token") || v.detail.contains("identifiers cannot contain")) && !case.to_string().is_ascii(),
        // KF-026: a definition named like a prelude item the generated code writes unqualified
        // (`Default::default()`, `Ok(..)`, `Err(..)`, `Some(..)`, `None`) shadows it
        "definition_named_default" => any_schema_node(case, &mut |o| o.keys().any(|k| matches!(crate::gen::names::sanitize_like(k, true).as_str(), "Default" | "Ok" | "Err" | "Some" | "None")) && o.values().all(|x| x.is_object() || x.is_boolean())),
        // KF-028: two variants of one union whose payloads differ only in how often they are
        // wrapped as nullable (Option<T> / Option<Option<T>>): typify flattens both to Option<T> and
        // emits `From<Option<T>>` twice
        // (the compiler's message names the symptom exactly; structurally the case must have a union
        // with at least two single-member object alternatives, i.e. newtype variants)
        "variants_differ_only_in_nested_nullable" if v.detail.contains("conflicting implementations of trait `From<") => any_schema_node(case, &mut |o| {
            o.get("oneOf").or_else(|| o.get("anyOf")).and_then(|b| b.as_array()).map(|bs| bs.iter().filter(|b| b.get("properties").and_then(|p| p.as_object()).map(|p| p.len() == 1).unwrap_or(false)).count() >= 2).unwrap_or(false)
        }),
        "variants_differ_only_in_nested_nullable" => any_schema_node(case, &mut |o| {
            let Some(bs) = o.get("oneOf").or_else(|| o.get("anyOf")).and_then(|b| b.as_array()) else { return false };
            // what typify renders alike: nested nullable wrappers collapse to one Option, a set of
            // strings is written as a Vec
            fn norm(v: &Value) -> Value {
                if let Some(alts) = v.get("anyOf").or_else(|| v.get("oneOf")).and_then(|a| a.as_array()) {
                    let is_null = |a: &Value| a.get("type") == Some(&Value::String("null".into()));
                    if alts.len() == 2 && alts.iter().filter(|a| is_null(a)).count() == 1 {
                        let inner = norm(alts.iter().find(|a| !is_null(a)).unwrap());
                        if inner.get("__opt").is_some() {
                            return inner;
                        }
                        return serde_json::json!({"__opt": inner});
                    }
                }
                match v {
                    Value::Object(m) => Value::Object(m.iter().filter(|(k, _)| !matches!(k.as_str(), "uniqueItems" | "minItems" | "maxItems" | "description" | "title")).map(|(k, x)| (k.clone(), norm(x))).collect()),
                    Value::Array(a) => Value::Array(a.iter().map(norm).collect()),
                    x => x.clone(),
                }
            }
            let mut seen: Vec<(Value, Value)> = vec![];
            for b in bs {
                let Some(ps) = b.get("properties").and_then(|p| p.as_object()) else { continue };
                if ps.len() != 1 {
                    continue;
                }
                let raw = ps.values().next().unwrap().clone();
                let n = norm(&raw);
                if seen.iter().any(|(r, m)| m == &n && r != &raw) {
                    return true;
                }
                seen.push((raw, n));
            }
            false
        }),
        // KF-027: a bidirectional-control character of the schema text ends up in a doc comment
        "bidi_control_in_doc_comment" => v.detail.contains("text_direction_codepoint"),
        "root_title_is_also_a_definition" => case.get("history").and_then(|h| h.as_array()).map(|steps| steps.iter().any(|st| {
            let Some(doc) = st.get("doc") else { return false };
            match (doc.get("title").and_then(|t| t.as_str()), doc.get("definitions").and_then(|d| d.as_object())) {
                (Some(t), Some(defs)) => defs.contains_key(t),
                _ => false,
            }
        })).unwrap_or(false),
        "allof_integer_and_number" => {
            let txt = case.get("members").map(|m| m.to_string()).unwrap_or_default() + &case.get("base").map(|m| m.to_string()).unwrap_or_default();
            txt.contains("\"type\":\"number\"") && txt.contains("\"type\":\"integer\"")
        }
        "allof_member_with_additional_properties_schema" => case.get("members").and_then(|m| m.as_array()).map(|m| m.iter().any(|x| x.get("additionalProperties").map(|a| a.is_object()).unwrap_or(false))).unwrap_or(false) || case.get("base").and_then(|b| b.get("additionalProperties")).map(|a| a.is_object()).unwrap_or(false),
        "allof_member_is_oneof" => case.get("members").and_then(|m| m.as_array()).map(|m| m.iter().any(|x| x.get("oneOf").is_some())).unwrap_or(false),
        "allof_required_but_forbidden" => {
            let ms: Vec<&Value> = case.get("members").and_then(|m| m.as_array()).map(|m| m.iter().collect()).unwrap_or_default();
            ms.iter().any(|closed| {
                closed.get("additionalProperties") == Some(&Value::Bool(false))
                    && ms.iter().any(|other| {
                        other.get("required").and_then(|r| r.as_array()).map(|r| r.iter().filter_map(|x| x.as_str()).any(|q| closed.get("properties").and_then(|p| p.get(q)).is_none() && other.get("properties").and_then(|p| p.get(q)).is_none())).unwrap_or(false)
                    })
            })
        }
        "display_claim_on_constrained_string" => v.detail.contains("has_impl(Display)") && any_schema_node(case, &mut |o| o.contains_key("minLength") || o.contains_key("maxLength") || o.contains_key("pattern")),
        "date_time_native" => any_schema_node(case, &mut |o| o.get("format") == Some(&Value::String("date-time".into()))),
        "property_default_on_inline_struct" => case.pointer("/extra/schema/type") == Some(&Value::String("object".into())) && case.pointer("/extra/schema/properties").is_some() && case.pointer("/history/0/doc/definitions/Holder/properties/p/default").is_some(),
        "default_on_formatted_string" => case.pointer("/extra/schema/format").is_some() && case.pointer("/extra/schema/type") == Some(&Value::String("string".into())),
        "default_on_number_schema" => case.pointer("/extra/schema/type") == Some(&Value::String("number".into())),
        "definition_added_twice" => {
            let mut seen = std::collections::BTreeSet::new();
            let mut twice = false;
            for h in case.get("history").and_then(|h| h.as_array()).into_iter().flatten() {
                let defs = h.get("defs").or_else(|| h.get("doc").and_then(|d| d.get("definitions")));
                for k in defs.and_then(|d| d.as_object()).map(|o| o.keys().cloned().collect::<Vec<_>>()).unwrap_or_default() {
                    if !seen.insert(k) {
                        twice = true;
                    }
                }
            }
            twice
        }
        "names_collide_after_sanitisation" => {
            let usage = case.get("use").and_then(|u| u.as_str()).unwrap_or("");
            if usage == "enum" || usage == "variant" {
                // typify disambiguates or refuses colliding variant names itself
                return false;
            }
            let pascal = usage != "prop";
            let names: Vec<String> = case.get("names").and_then(|n| n.as_array()).map(|a| a.iter().filter_map(|x| x.as_str().map(|s| crate::gen::names::sanitize_like(s, pascal))).collect()).unwrap_or_default();
            let mut d = names.clone();
            d.sort();
            d.dedup();
            d.len() < names.len()
        }
        "default_beyond_f64_precision" => case.get("schema").and_then(|s| s.get("default")).and_then(|d| d.as_f64()).map(|d| d.abs() >= 9007199254740992.0).unwrap_or(false),
        "enum_constrained_newtype_over_non_partialeq_type" => v.detail.contains("can't compare") && v.detail.contains(".contains(&value)"),
        "union_branches_share_prop_with_different_inline_schema" => union_branches_share_prop(case),
        "union_mixes_open_and_closed_variants" => union_mixes_open_closed(case),
        "union_of_open_single_property_objects" => union_open_single_prop(case),
        "optional_property_closes_reference_cycle" => optional_cyclic(case),
        "boolean_enum" => any_schema_node(case, &mut |o| o.get("type") == Some(&Value::String("boolean".into())) && o.contains_key("enum")),
        "closed_tag_only_variant" => any_schema_node(case, &mut |o| {
            o.get("oneOf").and_then(|b| b.as_array()).map(|bs| bs.iter().any(|b| {
                b.get("additionalProperties") == Some(&Value::Bool(false))
                    && b.get("properties").and_then(|p| p.as_object()).map(|p| p.len() == 1 && p.values().all(|s| s.get("enum").and_then(|e| e.as_array()).map(|e| e.len() == 1).unwrap_or(false))).unwrap_or(false)
            })).unwrap_or(false)
        }),
        "closed_adjacent_wrapper" => any_schema_node(case, &mut |o| {
            o.get("oneOf").and_then(|b| b.as_array()).map(|bs| bs.iter().any(|b| {
                b.get("additionalProperties") == Some(&Value::Bool(false))
                    && b.get("properties").and_then(|p| p.as_object()).map(|p| p.len() <= 2 && p.values().any(|s| s.get("enum").and_then(|e| e.as_array()).map(|e| e.len() == 1).unwrap_or(false))).unwrap_or(false)
            })).unwrap_or(false)
        }),
        "union_with_two_null_alternatives" => any_schema_node(case, &mut |o| {
            ["oneOf", "anyOf"].iter().any(|k| o.get(*k).and_then(|b| b.as_array()).map(|bs| bs.iter().filter(|b| b.get("type") == Some(&Value::String("null".into()))).count() >= 2).unwrap_or(false))
        }),
        _ => false,
    }
}

/// Visit every JSON object inside the schemas of a case's history.
pub fn any_schema_node(case: &Value, f: &mut dyn FnMut(&serde_json::Map<String, Value>) -> bool) -> bool {
    fn walk(v: &Value, f: &mut dyn FnMut(&serde_json::Map<String, Value>) -> bool) -> bool {
        match v {
            Value::Object(o) => {
                if f(o) {
                    return true;
                }
                o.values().any(|c| walk(c, f))
            }
            Value::Array(a) => a.iter().any(|c| walk(c, f)),
            _ => false,
        }
    }
    // (most cases carry their schemas in `history`; C04's carry one document under `schema`)
    case.get("history").map(|h| walk(h, f)).unwrap_or(false) || case.get("schema").map(|h| walk(h, f)).unwrap_or(false)
}

fn is_plain_scalar(v: &Value) -> bool {
    let Some(o) = v.as_object() else { return true };
    if o.contains_key("$ref") {
        return true;
    }
    o.keys().all(|k| matches!(k.as_str(), "type" | "format" | "description" | "title"))
        && matches!(o.get("type").and_then(|t| t.as_str()), Some("string") | Some("integer") | Some("number") | Some("boolean") | Some("null") | None)
}

/// KF-001: a oneOf/anyOf with two object branches that declare a property of
/// the same name with different schemas, at least one of which produces a
/// named type.
fn union_branches_share_prop(case: &Value) -> bool {
    any_schema_node(case, &mut |o| {
        for key in ["oneOf", "anyOf"] {
            let Some(bs) = o.get(key).and_then(|b| b.as_array()) else { continue };
            for (i, a) in bs.iter().enumerate() {
                for b in bs.iter().skip(i + 1) {
                    let (Some(pa), Some(pb)) = (a.get("properties").and_then(|p| p.as_object()), b.get("properties").and_then(|p| p.as_object())) else { continue };
                    // adjacently tagged wrappers: the payload types are named after the variants
                    let wrapper = |ps: &serde_json::Map<String, Value>| ps.len() <= 2 && ps.contains_key("tag") && ps.keys().all(|k| k == "tag" || k == "content");
                    for (k, sa) in pa {
                        if let Some(sb) = pb.get(k) {
                            if wrapper(pa) && wrapper(pb) {
                                continue;
                            }
                            // both sides must need a generated (named) type for the clash to arise
                            if sa != sb && needs_named_type(sa) && needs_named_type(sb) {
                                return true;
                            }
                        }
                    }
                }
            }
        }
        false
    })
}

/// Does an in-line schema make typify generate a named type (struct, enum, constrained newtype)?
fn needs_named_type(s: &Value) -> bool {
    let Some(o) = s.as_object() else { return false };
    if o.contains_key("$ref") {
        return false;
    }
    if o.get("properties").and_then(|p| p.as_object()).map(|p| !p.is_empty()).unwrap_or(false) || o.contains_key("oneOf") || o.contains_key("anyOf") || o.contains_key("allOf") || o.contains_key("not") {
        return true;
    }
    if o.get("enum").and_then(|e| e.as_array()).map(|e| e.len() >= 2).unwrap_or(false) {
        return true;
    }
    if o.contains_key("pattern") || o.contains_key("minLength") || o.contains_key("maxLength") {
        return true;
    }
    match o.get("items") {
        Some(Value::Array(items)) => items.iter().any(needs_named_type),
        Some(item) => needs_named_type(item),
        None => o.get("additionalProperties").map(needs_named_type).unwrap_or(false),
    }
}

/// KF-002: a oneOf whose branches contain both a closed struct-like object
/// (additionalProperties: false) and an open one, looking at the branch and
/// at the payload one level below.
fn union_mixes_open_closed(case: &Value) -> bool {
    fn collect(v: &Value, depth: usize, closed: &mut bool, open: &mut bool) {
        let Some(o) = v.as_object() else { return };
        // a conjunction of objects is an open struct as well
        if o.get("allOf").and_then(|b| b.as_array()).map(|bs| bs.iter().any(|b| b.get("type") == Some(&Value::String("object".into())) || b.get("properties").is_some() || b.get("$ref").is_some())).unwrap_or(false) {
            *open = true;
        }
        if let Some(ps) = o.get("properties").and_then(|p| p.as_object()) {
            match o.get("additionalProperties") {
                Some(Value::Bool(false)) => *closed = true,
                _ => *open = true,
            }
            if depth < 1 {
                for p in ps.values() {
                    collect(p, depth + 1, closed, open);
                }
            }
        }
    }
    any_schema_node(case, &mut |o| {
        for key in ["oneOf", "anyOf"] {
            let Some(bs) = o.get(key).and_then(|b| b.as_array()) else { continue };
            let (mut c, mut op) = (false, false);
            // adjacently tagged: {tag: const [, content: payload]} wrappers. Their own closedness is
            // not represented at all (KF-007); only the payloads can mix.
            let adjacent = bs.len() >= 2
                && bs.iter().all(|b| {
                    let ps = b.get("properties").and_then(|p| p.as_object());
                    ps.map(|ps| ps.len() <= 2 && ps.contains_key("tag") && ps.keys().all(|k| k == "tag" || k == "content") && ps["tag"].get("enum").and_then(|e| e.as_array()).map(|e| e.len() == 1).unwrap_or(false)).unwrap_or(false)
                });
            for b in bs {
                if adjacent {
                    // a closed payload makes the whole enum deny unknown members, which also closes
                    // the wrappers the schema leaves open
                    if let Some(content) = b.get("properties").and_then(|p| p.get("content")) {
                        collect(content, 1, &mut c, &mut op);
                    }
                    if b.get("additionalProperties") != Some(&Value::Bool(false)) {
                        op = true;
                    }
                } else {
                    collect(b, 0, &mut c, &mut op);
                }
            }
            if c && op {
                return true;
            }
        }
        false
    })
}

/// KF-003: a oneOf with an object branch that has exactly one property, which
/// is required, and that does not forbid additional properties.
fn union_open_single_prop(case: &Value) -> bool {
    any_schema_node(case, &mut |o| {
        let Some(bs) = o.get("oneOf").and_then(|b| b.as_array()) else { return false };
        // the externally tagged reading needs every object alternative to be a single required
        // property, under pairwise distinct keys (a shared key is a tag: other taggings apply)
        let single = |b: &Value| -> Option<(String, bool)> {
            let bo = b.as_object()?;
            let ps = bo.get("properties")?.as_object()?;
            let nr = bo.get("required").and_then(|p| p.as_array()).map(|p| p.len()).unwrap_or(0);
            if ps.len() == 1 && nr == 1 {
                Some((ps.keys().next()?.clone(), bo.get("additionalProperties") != Some(&Value::Bool(false))))
            } else {
                None
            }
        };
        let objs: Vec<&Value> = bs.iter().filter(|b| b.get("properties").is_some() || b.get("type") == Some(&Value::String("object".into()))).collect();
        let singles: Vec<(String, bool)> = objs.iter().filter_map(|b| single(b)).collect();
        if objs.is_empty() || singles.len() != objs.len() {
            return false;
        }
        let mut keys: Vec<&String> = singles.iter().map(|(k, _)| k).collect();
        keys.sort();
        keys.dedup();
        keys.len() == singles.len() && singles.iter().any(|(_, open)| *open)
    })
}

/// KF-004: a non-required property whose schema is a bare `$ref` closing a cycle.
fn optional_cyclic(case: &Value) -> bool {
    case.get("history")
        .and_then(|h| h.as_array())
        .map(|steps| steps.iter().any(|st| st.get("doc").map(|d| !crate::gen::schema::optional_cyclic_refs(d).is_empty()).unwrap_or(false)))
        .unwrap_or(false)
}
