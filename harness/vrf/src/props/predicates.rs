//! Predicates over (shrunk) cases used to attribute a violation to a known
//! finding (DESIGN.md §3.5). A violation is attributed only when the symptom
//! matches *and* the predicate holds; anything else is reported normally.

use crate::engine::Violation;
use serde_json::Value;

pub fn check(name: &str, case: &Value, v: &Violation) -> bool {
    match name {
        "inline_type_under_name_without_alphanumerics" => {
            case.get("use").and_then(|u| u.as_str()) == Some("prop")
                && case.get("ptype").and_then(|t| t.as_u64()) == Some(7)
                && case.get("names").and_then(|n| n.as_array()).and_then(|a| a.first()).and_then(|x| x.as_str()).map(|n| crate::gen::names::heck_pascal(&n.replace('\'', "").replace(|c: char| !unicode_ident::is_xid_continue(c), "-")).is_empty()).unwrap_or(false)
        }
        "root_title_is_also_a_definition" => case.get("history").and_then(|h| h.as_array()).map(|steps| steps.iter().any(|st| {
            let Some(doc) = st.get("doc") else { return false };
            match (doc.get("title").and_then(|t| t.as_str()), doc.get("definitions").and_then(|d| d.as_object())) {
                (Some(t), Some(defs)) => defs.contains_key(t),
                _ => false,
            }
        })).unwrap_or(false),
        "allof_integer_and_number" => {
            let txt = case.get("members").map(|m| m.to_string()).unwrap_or_default() + &case.get("base").map(|m| m.to_string()).unwrap_or_default();
            txt.contains("\"type\":\"number\"") && txt.contains("\"type\":\"integer\"")
        }
        "allof_member_with_additional_properties_schema" => case.get("members").and_then(|m| m.as_array()).map(|m| m.iter().any(|x| x.get("additionalProperties").map(|a| a.is_object()).unwrap_or(false))).unwrap_or(false) || case.get("base").and_then(|b| b.get("additionalProperties")).map(|a| a.is_object()).unwrap_or(false),
        "allof_member_is_oneof" => case.get("members").and_then(|m| m.as_array()).map(|m| m.iter().any(|x| x.get("oneOf").is_some())).unwrap_or(false),
        "allof_required_but_forbidden" => {
            let ms: Vec<&Value> = case.get("members").and_then(|m| m.as_array()).map(|m| m.iter().collect()).unwrap_or_default();
            ms.iter().any(|closed| {
                closed.get("additionalProperties") == Some(&Value::Bool(false))
                    && ms.iter().any(|other| {
                        other.get("required").and_then(|r| r.as_array()).map(|r| r.iter().filter_map(|x| x.as_str()).any(|q| closed.get("properties").and_then(|p| p.get(q)).is_none() && other.get("properties").and_then(|p| p.get(q)).is_none())).unwrap_or(false)
                    })
            })
        }
        "display_claim_on_constrained_string" => v.detail.contains("has_impl(Display)") && any_schema_node(case, &mut |o| o.contains_key("minLength") || o.contains_key("maxLength") || o.contains_key("pattern")),
        "date_time_native" => any_schema_node(case, &mut |o| o.get("format") == Some(&Value::String("date-time".into()))),
        "property_default_on_inline_struct" => case.pointer("/extra/schema/type") == Some(&Value::String("object".into())) && case.pointer("/extra/schema/properties").is_some() && case.pointer("/history/0/doc/definitions/Holder/properties/p/default").is_some(),
        "default_on_formatted_string" => case.pointer("/extra/schema/format").is_some() && case.pointer("/extra/schema/type") == Some(&Value::String("string".into())),
        "default_on_number_schema" => case.pointer("/extra/schema/type") == Some(&Value::String("number".into())),
        "definition_added_twice" => {
            let mut seen = std::collections::BTreeSet::new();
            let mut twice = false;
            for h in case.get("history").and_then(|h| h.as_array()).into_iter().flatten() {
                let defs = h.get("defs").or_else(|| h.get("doc").and_then(|d| d.get("definitions")));
                for k in defs.and_then(|d| d.as_object()).map(|o| o.keys().cloned().collect::<Vec<_>>()).unwrap_or_default() {
                    if !seen.insert(k) {
                        twice = true;
                    }
                }
            }
            twice
        }
        "names_collide_after_sanitisation" => {
            let usage = case.get("use").and_then(|u| u.as_str()).unwrap_or("");
            if usage == "enum" || usage == "variant" {
                // typify disambiguates or refuses colliding variant names itself
                return false;
            }
            let pascal = usage != "prop";
            let names: Vec<String> = case.get("names").and_then(|n| n.as_array()).map(|a| a.iter().filter_map(|x| x.as_str().map(|s| crate::gen::names::sanitize_like(s, pascal))).collect()).unwrap_or_default();
            let mut d = names.clone();
            d.sort();
            d.dedup();
            d.len() < names.len()
        }
        "default_beyond_f64_precision" => case.get("schema").and_then(|s| s.get("default")).and_then(|d| d.as_f64()).map(|d| d.abs() >= 9007199254740992.0).unwrap_or(false),
        "enum_constrained_newtype_over_non_partialeq_type" => v.detail.contains("can't compare") && v.detail.contains(".contains(&value)"),
        "union_branches_share_prop_with_different_inline_schema" => union_branches_share_prop(case),
        "union_mixes_open_and_closed_variants" => union_mixes_open_closed(case),
        "union_of_open_single_property_objects" => union_open_single_prop(case),
        "optional_property_closes_reference_cycle" => optional_cyclic(case),
        "boolean_enum" => any_schema_node(case, &mut |o| o.get("type") == Some(&Value::String("boolean".into())) && o.contains_key("enum")),
        "closed_tag_only_variant" => any_schema_node(case, &mut |o| {
            o.get("oneOf").and_then(|b| b.as_array()).map(|bs| bs.iter().any(|b| {
                b.get("additionalProperties") == Some(&Value::Bool(false))
                    && b.get("properties").and_then(|p| p.as_object()).map(|p| p.len() == 1 && p.values().all(|s| s.get("enum").and_then(|e| e.as_array()).map(|e| e.len() == 1).unwrap_or(false))).unwrap_or(false)
            })).unwrap_or(false)
        }),
        "closed_adjacent_wrapper" => any_schema_node(case, &mut |o| {
            o.get("oneOf").and_then(|b| b.as_array()).map(|bs| bs.iter().any(|b| {
                b.get("additionalProperties") == Some(&Value::Bool(false))
                    && b.get("properties").and_then(|p| p.as_object()).map(|p| p.len() <= 2 && p.values().any(|s| s.get("enum").and_then(|e| e.as_array()).map(|e| e.len() == 1).unwrap_or(false))).unwrap_or(false)
            })).unwrap_or(false)
        }),
        "union_with_two_null_alternatives" => any_schema_node(case, &mut |o| {
            ["oneOf", "anyOf"].iter().any(|k| o.get(*k).and_then(|b| b.as_array()).map(|bs| bs.iter().filter(|b| b.get("type") == Some(&Value::String("null".into()))).count() >= 2).unwrap_or(false))
        }),
        _ => false,
    }
}

/// Visit every JSON object inside the schemas of a case's history.
pub fn any_schema_node(case: &Value, f: &mut dyn FnMut(&serde_json::Map<String, Value>) -> bool) -> bool {
    fn walk(v: &Value, f: &mut dyn FnMut(&serde_json::Map<String, Value>) -> bool) -> bool {
        match v {
            Value::Object(o) => {
                if f(o) {
                    return true;
                }
                o.values().any(|c| walk(c, f))
            }
            Value::Array(a) => a.iter().any(|c| walk(c, f)),
            _ => false,
        }
    }
    case.get("history").map(|h| walk(h, f)).unwrap_or(false)
}

fn is_plain_scalar(v: &Value) -> bool {
    let Some(o) = v.as_object() else { return true };
    if o.contains_key("$ref") {
        return true;
    }
    o.keys().all(|k| matches!(k.as_str(), "type" | "format" | "description" | "title"))
        && matches!(o.get("type").and_then(|t| t.as_str()), Some("string") | Some("integer") | Some("number") | Some("boolean") | Some("null") | None)
}

/// KF-001: a oneOf/anyOf with two object branches that declare a property of
/// the same name with different schemas, at least one of which produces a
/// named type.
fn union_branches_share_prop(case: &Value) -> bool {
    any_schema_node(case, &mut |o| {
        for key in ["oneOf", "anyOf"] {
            let Some(bs) = o.get(key).and_then(|b| b.as_array()) else { continue };
            for (i, a) in bs.iter().enumerate() {
                for b in bs.iter().skip(i + 1) {
                    let (Some(pa), Some(pb)) = (a.get("properties").and_then(|p| p.as_object()), b.get("properties").and_then(|p| p.as_object())) else { continue };
                    for (k, sa) in pa {
                        if let Some(sb) = pb.get(k) {
                            if sa != sb && !(is_plain_scalar(sa) && is_plain_scalar(sb)) {
                                return true;
                            }
                        }
                    }
                }
            }
        }
        false
    })
}

/// KF-002: a oneOf whose branches contain both a closed struct-like object
/// (additionalProperties: false) and an open one, looking at the branch and
/// at the payload one level below.
fn union_mixes_open_closed(case: &Value) -> bool {
    fn collect(v: &Value, depth: usize, closed: &mut bool, open: &mut bool) {
        let Some(o) = v.as_object() else { return };
        if let Some(ps) = o.get("properties").and_then(|p| p.as_object()) {
            match o.get("additionalProperties") {
                Some(Value::Bool(false)) => *closed = true,
                _ => *open = true,
            }
            if depth < 1 {
                for p in ps.values() {
                    collect(p, depth + 1, closed, open);
                }
            }
        }
    }
    any_schema_node(case, &mut |o| {
        for key in ["oneOf", "anyOf"] {
            let Some(bs) = o.get(key).and_then(|b| b.as_array()) else { continue };
            let (mut c, mut op) = (false, false);
            for b in bs {
                collect(b, 0, &mut c, &mut op);
            }
            if c && op {
                return true;
            }
        }
        false
    })
}

/// KF-003: a oneOf with an object branch that has exactly one property, which
/// is required, and that does not forbid additional properties.
fn union_open_single_prop(case: &Value) -> bool {
    any_schema_node(case, &mut |o| {
        let Some(bs) = o.get("oneOf").and_then(|b| b.as_array()) else { return false };
        bs.iter().any(|b| {
            let Some(bo) = b.as_object() else { return false };
            let np = bo.get("properties").and_then(|p| p.as_object()).map(|p| p.len()).unwrap_or(0);
            let nr = bo.get("required").and_then(|p| p.as_array()).map(|p| p.len()).unwrap_or(0);
            np == 1 && nr == 1 && bo.get("additionalProperties") != Some(&Value::Bool(false))
        })
    })
}

/// KF-004: a non-required property whose schema is a bare `$ref` closing a cycle.
fn optional_cyclic(case: &Value) -> bool {
    case.get("history")
        .and_then(|h| h.as_array())
        .map(|steps| steps.iter().any(|st| st.get("doc").map(|d| !crate::gen::schema::optional_cyclic_refs(d).is_empty()).unwrap_or(false)))
        .unwrap_or(false)
}
