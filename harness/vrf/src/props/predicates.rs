//! Predicates over (shrunk) cases used to attribute a violation to a known
//! finding (DESIGN.md §3.5). A violation is attributed only when the symptom
//! matches *and* the predicate holds; anything else is reported normally.

use crate::engine::Violation;
use serde_json::Value;

pub fn check(name: &str, case: &Value, v: &Violation) -> bool {
    let _ = (case, v);
    match name {
        _ => false,
    }
}

/// Visit every JSON object inside the schemas of a case's history.
pub fn any_schema_node(case: &Value, f: &mut dyn FnMut(&serde_json::Map<String, Value>) -> bool) -> bool {
    fn walk(v: &Value, f: &mut dyn FnMut(&serde_json::Map<String, Value>) -> bool) -> bool {
        match v {
            Value::Object(o) => {
                if f(o) {
                    return true;
                }
                o.values().any(|c| walk(c, f))
            }
            Value::Array(a) => a.iter().any(|c| walk(c, f)),
            _ => false,
        }
    }
    case.get("history").map(|h| walk(h, f)).unwrap_or(false)
}
