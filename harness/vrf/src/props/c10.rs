//! C10 -- built-in type selection can represent every value the schema admits.
//! Exhaustive enumeration of a boundary lattice; reference decision function
//! in exact i128 arithmetic (DESIGN.md Appendix B.1).

use super::common::*;
use crate::case::*;
use crate::engine::*;
use crate::ingest::{self, Outcome};
use serde_json::{json, Map, Value};

pub struct C10;

const INT_FORMATS: &[(&str, i128, i128)] = &[
    ("int8", i8::MIN as i128, i8::MAX as i128),
    ("uint8", 0, u8::MAX as i128),
    ("int16", i16::MIN as i128, i16::MAX as i128),
    ("uint16", 0, u16::MAX as i128),
    ("int32", i32::MIN as i128, i32::MAX as i128),
    ("uint32", 0, u32::MAX as i128),
    ("int", i32::MIN as i128, i32::MAX as i128),
    ("uint", 0, u32::MAX as i128),
    ("int64", i64::MIN as i128, i64::MAX as i128),
    ("uint64", 0, u64::MAX as i128),
];

fn type_range(t: &str) -> Option<(i128, i128, bool)> {
    Some(match t {
        "i8" => (i8::MIN as i128, i8::MAX as i128, false),
        "u8" => (0, u8::MAX as i128, false),
        "i16" => (i16::MIN as i128, i16::MAX as i128, false),
        "u16" => (0, u16::MAX as i128, false),
        "i32" => (i32::MIN as i128, i32::MAX as i128, false),
        "u32" => (0, u32::MAX as i128, false),
        "i64" => (i64::MIN as i128, i64::MAX as i128, false),
        "u64" => (0, u64::MAX as i128, false),
        "::std::num::NonZeroU8" => (1, u8::MAX as i128, true),
        "::std::num::NonZeroU16" => (1, u16::MAX as i128, true),
        "::std::num::NonZeroU32" => (1, u32::MAX as i128, true),
        "::std::num::NonZeroU64" => (1, u64::MAX as i128, true),
        _ => return None,
    })
}

pub fn full_lattice() -> Vec<i128> {
    let mut v: Vec<i128> = vec![0, 1, -1, 2, -2, 100, -100, 1_000_000, -1_000_000];
    for (_, lo, hi) in INT_FORMATS {
        for d in [-1i128, 0, 1] {
            v.push(lo + d);
            v.push(hi + d);
        }
    }
    v.sort();
    v.dedup();
    v
}

/// bounds are doubles in schemars: only values a double holds exactly are
/// used as bounds (so that the schema text and the parsed schema agree)
fn exact_f64(n: i128) -> bool {
    (n as f64) as i128 == n && n.abs() <= (1i128 << 100)
}

fn reduced_lattice() -> Vec<i128> {
    let mut v: Vec<i128> = vec![0, 1, -1, 2, 100];
    for (f, lo, hi) in INT_FORMATS {
        if matches!(*f, "int" | "uint") {
            continue;
        }
        v.push(*lo);
        v.push(*hi);
        v.push(hi + 1);
        if *lo != 0 {
            v.push(lo - 1);
        }
    }
    v.sort();
    v.dedup();
    v
}

fn num(n: i128) -> Value {
    // bounds go through f64 in schemars; write integers as JSON integers when
    // they fit, else as the float literal
    if n >= 0 && n <= u64::MAX as i128 {
        json!(n as u64)
    } else if n >= i64::MIN as i128 && n < 0 {
        json!(n as i64)
    } else {
        json!(n as f64)
    }
}

/// the exact integer value of the double schemars will hold for this bound
fn as_parsed(v: &Value) -> Option<i128> {
    let f = v.as_f64()?;
    if f.fract() != 0.0 || f.abs() > 1e30 {
        return None;
    }
    Some(f as i128)
}

pub struct Sem {
    pub format: Option<String>,
    pub min: Option<i128>,
    pub emin: Option<i128>,
    pub max: Option<i128>,
    pub emax: Option<i128>,
    pub mult: Option<i128>,
}

pub fn sem(s: &Map<String, Value>) -> Option<Sem> {
    let g = |k: &str| -> Option<Option<i128>> {
        match s.get(k) {
            None => Some(None),
            Some(v) => as_parsed(v).map(Some),
        }
    };
    Some(Sem {
        format: s.get("format").and_then(|f| f.as_str()).map(|s| s.to_string()),
        min: g("minimum")?,
        emin: g("exclusiveMinimum")?,
        max: g("maximum")?,
        emax: g("exclusiveMaximum")?,
        mult: g("multipleOf")?,
    })
}

fn fmt_range(f: &Option<String>) -> Option<(i128, i128)> {
    let f = f.as_deref()?;
    INT_FORMATS.iter().find(|(n, _, _)| *n == f).map(|(_, lo, hi)| (*lo, *hi))
}

/// `with_format = false` ignores the format range (weaker reading for the
/// unsized names int/uint)
pub fn admitted(n: i128, s: &Sem, with_format: bool) -> bool {
    s.min.map(|m| n >= m).unwrap_or(true)
        && s.emin.map(|m| n > m).unwrap_or(true)
        && s.max.map(|m| n <= m).unwrap_or(true)
        && s.emax.map(|m| n < m).unwrap_or(true)
        && s.mult.map(|m| m != 0 && n % m == 0).unwrap_or(true)
        && (!with_format || fmt_range(&s.format).map(|(lo, hi)| n >= lo && n <= hi).unwrap_or(true))
}

fn int_schema(fmt: Option<&str>, kv: &[(&str, i128)], default: Option<i128>) -> Value {
    let mut m = Map::new();
    m.insert("type".into(), json!("integer"));
    if let Some(f) = fmt {
        m.insert("format".into(), json!(f));
    }
    for (k, v) in kv {
        m.insert(k.to_string(), num(*v));
    }
    if let Some(d) = default {
        m.insert("default".into(), num(d));
    }
    json!({"schema": Value::Object(m)})
}

impl Property for C10 {
    fn id(&self) -> &'static str {
        "C10"
    }
    fn rule(&self) -> String {
        "exhaustive enumeration: integer schemas over {10 integer formats, unknown format, none} x lower bound {absent, minimum, exclusiveMinimum} x upper bound {absent, maximum, exclusiveMaximum} x multipleOf {absent, 2} with bounds from the boundary lattice (every integer type's MIN/MAX, each +-1, 0, +-1, 2, ...), a second family with `default` values, pairs of inclusive+exclusive bounds on the same side (all four keywords at once in the thorough tier), plus the string/number format tables (all recognised formats and 200 made-up ones); every lattice integer is probed against the reference admitted()/representable() functions; non-trivial = at least one bound or a default present and at least one admitted probe (or a format-table entry); distinct by schema".into()
    }
    fn assumptions(&self) -> Vec<String> {
        vec![
            "schema bounds are the doubles schemars parses; probes are compared with those doubles exactly (i128)".into(),
            "for the unsized format names `int`/`uint` each obligation is evaluated under its weaker reading (DESIGN B.1)".into(),
            "an ingestion error or panic is a refusal at add time and is not judged by this property".into(),
        ]
    }
    fn exhaustive(&self, _tier: Tier) -> bool {
        true
    }
    fn chunk(&self) -> usize {
        60000
    }
    fn generate(&self, tier: Tier, _seed: u64) -> Vec<Value> {
        let mut out = vec![];
        let lat: Vec<i128> = if tier == Tier::Quick { reduced_lattice() } else { full_lattice() }.into_iter().filter(|n| exact_f64(*n)).collect();
        let mut formats: Vec<Option<&str>> = INT_FORMATS.iter().map(|(f, _, _)| Some(*f)).collect();
        formats.push(Some("made-up-format"));
        formats.push(None);
        for f in &formats {
            let mut lowers: Vec<Vec<(&str, i128)>> = vec![vec![]];
            let mut uppers: Vec<Vec<(&str, i128)>> = vec![vec![]];
            for v in &lat {
                lowers.push(vec![("minimum", *v)]);
                lowers.push(vec![("exclusiveMinimum", *v)]);
                uppers.push(vec![("maximum", *v)]);
                uppers.push(vec![("exclusiveMaximum", *v)]);
            }
            for lo in &lowers {
                for up in &uppers {
                    for mult in [None, Some(2i128)] {
                        let mut kv: Vec<(&str, i128)> = lo.clone();
                        kv.extend(up.iter().cloned());
                        if let Some(m) = mult {
                            kv.push(("multipleOf", m));
                        }
                        out.push(int_schema(*f, &kv, None));
                    }
                }
            }
            // defaults against single inclusive bounds
            let small: Vec<i128> = if tier == Tier::Quick { vec![0, 1, -1, 127, 128, 255, 256, -128, -129, 65535] } else { reduced_lattice() };
            let mut lo2: Vec<Vec<(&str, i128)>> = vec![vec![]];
            let mut up2: Vec<Vec<(&str, i128)>> = vec![vec![]];
            for v in &small {
                lo2.push(vec![("minimum", *v)]);
                up2.push(vec![("maximum", *v)]);
            }
            for lo in &lo2 {
                for up in &up2 {
                    for d in reduced_lattice() {
                        let mut kv = lo.clone();
                        kv.extend(up.iter().cloned());
                        out.push(int_schema(*f, &kv, Some(d)));
                    }
                }
            }
            // inclusive and exclusive bound on the same side, on the reduced lattice
            let r: Vec<i128> = reduced_lattice().into_iter().filter(|n| exact_f64(*n)).collect();
            for a in &r {
                for b in &r {
                    out.push(int_schema(*f, &[("minimum", *a), ("exclusiveMinimum", *b)], None));
                    out.push(int_schema(*f, &[("maximum", *a), ("exclusiveMaximum", *b)], None));
                    for c in [r[0], 0, 255, 256, r[r.len() - 1]] {
                        out.push(int_schema(*f, &[("minimum", *a), ("exclusiveMinimum", *b), ("maximum", c)], None));
                        out.push(int_schema(*f, &[("maximum", *a), ("exclusiveMaximum", *b), ("minimum", c)], None));
                    }
                }
            }
            // defaults next to exclusive bounds
            for a in &r {
                for d in &r {
                    out.push(int_schema(*f, &[("exclusiveMinimum", *a)], Some(*d)));
                    out.push(int_schema(*f, &[("exclusiveMaximum", *a)], Some(*d)));
                }
            }
            if tier == Tier::Thorough {
                // all four bound keywords at once, on a small lattice
                let small: Vec<i128> = vec![i64::MIN as i128, -129, -128, -1, 0, 1, 127, 128, 255, 256, 65535, 65536, u32::MAX as i128, (u32::MAX as i128) + 1, 1i128 << 63];
                for a in &small {
                    for b in &small {
                        for c in &small {
                            for d in &small {
                                out.push(int_schema(*f, &[("minimum", *a), ("exclusiveMinimum", *b), ("maximum", *c), ("exclusiveMaximum", *d)], None));
                            }
                        }
                    }
                }
            }
        }
        // the same integer schemas as one alternative of a two-type schema
        {
            let small: Vec<i128> = vec![0, 1, 5, -1, 127, 128, 255, 256, -128, -129, 65535];
            let mut lo2: Vec<Vec<(&str, i128)>> = vec![vec![]];
            let mut up2: Vec<Vec<(&str, i128)>> = vec![vec![]];
            for v in &small {
                lo2.push(vec![("minimum", *v)]);
                up2.push(vec![("maximum", *v)]);
            }
            for f in &formats {
                for lo in &lo2 {
                    for up in &up2 {
                        for w in ["string", "boolean"] {
                            let mut kv = lo.clone();
                            kv.extend(up.iter().cloned());
                            let mut c = int_schema(*f, &kv, None);
                            c["with"] = json!(w);
                            out.push(c);
                        }
                    }
                }
            }
        }
        // enumerations of whole numbers without `type`
        {
            let pool: Vec<i128> = vec![0, 1, -1, 255, 256, -129, 65536, i32::MAX as i128, (i32::MAX as i128) + 1, i64::MAX as i128 - 1023, 1i128 << 62, -(1i128 << 63), 1i128 << 63, 1i128 << 53, (1i128 << 53) + 2];
            for a in &pool {
                out.push(json!({"schema": {"enum": [num(*a)]}}));
                for b in &pool {
                    if a < b {
                        out.push(json!({"schema": {"enum": [num(*a), num(*b)]}}));
                        out.push(json!({"schema": {"enum": [num(*a), num(*b), null]}}));
                    }
                }
            }
        }
        // format tables
        let known = ["uuid", "date", "date-time", "ip", "ipv4", "ipv6"];
        for f in known {
            out.push(json!({"schema": {"type": "string", "format": f}}));
        }
        let mut made_up: Vec<String> = vec!["email".into(), "hostname".into(), "uri".into(), "binary".into(), "byte".into(), "password".into(), "time".into(), "duration".into(), "UUID".into(), "Date".into(), "ipv4 ".into(), "int32".into(), "float".into(), "".into()];
        for i in 0..200 {
            made_up.push(format!("x-format-{i}"));
        }
        for f in &made_up {
            out.push(json!({"schema": {"type": "string", "format": f}}));
            out.push(json!({"schema": {"type": "number", "format": f}}));
            if !INT_FORMATS.iter().any(|(n, _, _)| n == f) {
                out.push(json!({"schema": {"type": "integer", "format": f}}));
            }
        }
        for f in ["float", "double"] {
            out.push(json!({"schema": {"type": "number", "format": f}}));
        }
        out.push(json!({"schema": {"type": "number"}}));
        out
    }
    fn prepare(&self, case_v: &Value) -> Unit {
        let mut unit = Unit::default();
        let Some(schema) = case_v.get("schema").and_then(|s| s.as_object()) else {
            return invalid_unit("no schema".into());
        };
        // `with`: the schema also admits a second JSON type (`type: [integer, <with>]`); the integer
        // alternative of the resulting union is then the type under observation
        let with = case_v.get("with").and_then(|w| w.as_str());
        let mut effective = schema.clone();
        if let Some(w) = with {
            if schema.get("type") != Some(&json!("integer")) || !matches!(w, "string" | "boolean") {
                return invalid_unit("with".into());
            }
            effective.insert("type".into(), json!(["integer", w]));
        }
        let case = Case { history: vec![Step::Root { doc: json!({"definitions": {"T": Value::Object(effective)}}) }], roots: vec![RootSel::Ref { r: "#/definitions/T".into() }], ..Default::default() };
        let mut ing = ingest::ingest(&case);
        unit.outcome = ing.outcome.clone();
        unit.message = ing.message.clone();
        let ty = schema.get("type").and_then(|t| t.as_str()).unwrap_or("");
        let s = if ty == "integer" { sem(schema) } else { None };
        // the default is a JSON value kept exactly by serde_json (unlike the
        // bounds, which schemars stores as doubles)
        let default = schema.get("default").and_then(|d| d.as_i64().map(|x| x as i128).or_else(|| d.as_u64().map(|x| x as i128)).or_else(|| as_parsed(d)));
        if ing.outcome != Outcome::Ok {
            return unit;
        }
        // chosen builtin: the newtype's inner type through the public API
        let ids = ingest::resolve_roots(&mut ing, &case);
        let Some(Some(id)) = ids.first() else {
            unit.violations.push(Violation::new("root-unresolved", "add_type($ref T) failed after successful ingestion"));
            return unit;
        };
        let fact = ingest::fact_of(&ing.space, id);
        let chosen: Option<String> = fact.as_ref().and_then(|f| match f.kind.as_str() {
            "newtype" => {
                let inner = f.children.first()?;
                let it = ing.space.iter_types().map(|t| ingest::type_fact(&ing.space, &t)).find(|_| true);
                let _ = it;
                // resolve inner id
                resolve_child(&ing.space, id).map(|cf| match cf.kind.as_str() {
                    "builtin" => cf.builtin.clone().unwrap_or_default(),
                    "string" => "String".to_string(),
                    other => format!("<{other}:{}>", cf.ident),
                })
                .or(Some(format!("<unresolved {inner}>")))
            }
            "builtin" => f.builtin.clone(),
            "string" => Some("String".into()),
            "enum" if with.is_some() => f.variants.iter().flat_map(|v| v.tuple.iter().map(|t| t.1.replace(' ', ""))).find(|t| type_range(t).is_some()).or(Some(format!("<union without an integer alternative: {:?}>", f.variants.iter().map(|v| v.tuple.clone()).collect::<Vec<_>>()))),
            other => Some(format!("<{other}:{}>", f.ident)),
        });
        let Some(chosen) = chosen else {
            unit.violations.push(Violation::new("root-unresolved", "no facts for the root type"));
            return unit;
        };
        unit.info = json!({"chosen": chosen});
        match ty {
            "integer" => {
                let Some(s) = s else { return unit };
                let Some((tlo, thi, nonzero)) = type_range(&chosen) else {
                    unit.violations.push(Violation::new("unexpected-type", format!("integer schema {} mapped to {}", Value::Object(schema.clone()), chosen)));
                    return unit;
                };
                let unsized_fmt = matches!(s.format.as_deref(), Some("int") | Some("uint"));
                let fmt = s.format.as_deref();
                let known_fmt = fmt_range(&s.format).is_some();
                let probes: Vec<i128> = full_lattice()
                    .into_iter()
                    .filter(|n| {
                        if fmt == Some("uint64") {
                            *n >= 0 && *n <= u64::MAX as i128
                        } else if known_fmt {
                            true
                        } else {
                            *n >= i64::MIN as i128 && *n <= i64::MAX as i128
                        }
                    })
                    .collect();
                let mut any_admitted = false;
                for n in probes {
                    // antecedent under the reading that makes the obligation weaker
                    if admitted(n, &s, true) {
                        any_admitted = true;
                        if n < tlo || n > thi {
                            unit.violations.push(Violation::new(
                                "admitted-unrepresentable",
                                format!("schema {} admits {} but the chosen type {} cannot represent it", Value::Object(schema.clone()), n, chosen),
                            ));
                            break;
                        }
                    }
                }
                let _ = unsized_fmt;
                if nonzero && admitted(0, &s, true) {
                    unit.violations.push(Violation::new("nonzero-admits-zero", format!("schema {} admits 0 but {} was chosen", Value::Object(schema.clone()), chosen)));
                }
                if let Some(d) = default {
                    // weak reading: for int/uint only demanded when d is not admitted even with the format ignored
                    let not_admitted = if unsized_fmt { !admitted(d, &s, false) } else { !admitted(d, &s, true) };
                    if not_admitted {
                        unit.violations.push(Violation::new("bad-default-accepted", format!("schema {} was accepted although its default {} is not admitted", Value::Object(schema.clone()), d)));
                    }
                }
                let bounded = s.min.is_some() || s.emin.is_some() || s.max.is_some() || s.emax.is_some() || default.is_some();
                unit.nontrivial = bounded && any_admitted;
                if !known_fmt && !bounded && s.mult.is_none() && chosen != "i64" {
                    unit.violations.push(Violation::new("format-table", format!("unbounded integer with format {:?} mapped to {} (expected i64)", s.format, chosen)));
                }
            }
            "string" => {
                let f = schema.get("format").and_then(|f| f.as_str()).unwrap_or("");
                let expect = match f {
                    "uuid" => "::uuid::Uuid",
                    "date" => "::chrono::naive::NaiveDate",
                    "date-time" => "::chrono::DateTime<::chrono::offset::Utc>",
                    "ip" => "::std::net::IpAddr",
                    "ipv4" => "::std::net::Ipv4Addr",
                    "ipv6" => "::std::net::Ipv6Addr",
                    _ => "String",
                };
                unit.nontrivial = true;
                if chosen.replace(' ', "") != expect {
                    unit.violations.push(Violation::new("format-table", format!("string format {:?} mapped to {} (expected {})", f, chosen, expect)));
                }
            }
            "number" => {
                let f = schema.get("format").and_then(|f| f.as_str()).unwrap_or("");
                let expect = if f == "float" { "f32" } else { "f64" };
                unit.nontrivial = true;
                if chosen != expect {
                    unit.violations.push(Violation::new("format-table", format!("number format {:?} mapped to {} (expected {})", f, chosen, expect)));
                }
            }
            "" if schema.contains_key("enum") => {
                // an enumeration of numbers without `type`: whatever scalar is chosen must be able to
                // hold every listed value exactly
                let exact = |v: &Value| v.as_i64().map(|x| x as i128).or_else(|| v.as_u64().map(|x| x as i128));
                let vals: Vec<i128> = schema["enum"].as_array().map(|a| a.iter().filter_map(exact).collect()).unwrap_or_default();
                unit.nontrivial = !vals.is_empty();
                let c = chosen.replace(' ', "");
                for v in vals {
                    let ok = match type_range(&c) {
                        Some((lo, hi, _)) => v >= lo && v <= hi,
                        None if c == "f64" => exact_f64(v),
                        None if c == "f32" => (v as f32) as i128 == v && v.unsigned_abs() < (1u128 << 24),
                        None => true, // not a scalar: nothing to claim here
                    };
                    if !ok {
                        unit.violations.push(Violation::new("admitted-unrepresentable", format!("schema {} lists {} but the chosen type {} cannot represent it", Value::Object(schema.clone()), v, chosen)));
                    }
                }
            }
            _ => {}
        }
        unit
    }
    fn in_domain(&self, case: &Value) -> bool {
        // shrunk schemas must stay integer/string/number leaf schemas with integral bounds
        let Some(s) = case.get("schema").and_then(|s| s.as_object()) else { return false };
        if s.len() == 1 && s.contains_key("enum") {
            return s["enum"].as_array().map(|a| !a.is_empty() && a.iter().all(|v| v.is_null() || v.is_i64() || v.is_u64())).unwrap_or(false) && case.get("with").is_none();
        }
        let allowed = ["type", "format", "minimum", "maximum", "exclusiveMinimum", "exclusiveMaximum", "multipleOf", "default"];
        s.keys().all(|k| allowed.contains(&k.as_str()))
            && matches!(s.get("type").and_then(|t| t.as_str()), Some("integer") | Some("string") | Some("number"))
            && s.get("format").map(|f| f.is_string()).unwrap_or(true)
            && ["minimum", "maximum", "exclusiveMinimum", "exclusiveMaximum", "default"].iter().all(|k| s.get(*k).map(|v| as_parsed(v).is_some()).unwrap_or(true))
            && s.get("multipleOf").map(|m| m == &json!(2)).unwrap_or(true)
            && case.get("with").map(|w| (w == "string" || w == "boolean") && s.get("type") == Some(&json!("integer"))).unwrap_or(true)
    }
    fn predicate(&self, name: &str, case: &Value, v: &Violation) -> bool {
        super::predicates::check(name, case, v)
    }
}

fn resolve_child(space: &typify_impl::TypeSpace, id: &typify_impl::TypeId) -> Option<ingest::TypeFact> {
    let ty = space.get_type(id).ok()?;
    if let typify_impl::TypeDetails::Newtype(n) = ty.details() {
        return ingest::fact_of(space, &n.inner());
    }
    None
}
