//! C04 -- Rust -> schemars schema -> typify type is wire compatible with the
//! original. Two compiled crates exchange JSON: origin (real serde + real
//! schemars, no model of either) and generated.

use super::common::*;
use crate::case::*;
use crate::compile::{CompileStatus, ProbeResult, TOOLCHAIN};
use crate::engine::*;
use crate::gen::rust as gr;
use crate::gen::{self, G};
use crate::ingest::{self, Outcome};
use crate::py::Py;
use serde_json::{json, Value};
use std::io::{BufRead, BufReader, Write};
use std::process::{Child, ChildStdin, ChildStdout, Command, Stdio};
use std::sync::Mutex;

pub struct C04;

const ORIGIN_DIR: &str = "/verif/work/origin";
const ORIGIN_TARGET: &str = "/verif/work/target-origin";

fn origin_bin(tag: &str) -> String {
    format!("{ORIGIN_TARGET}/debug/origin-{}", tag.to_lowercase())
}

/// Build the origin crate for `modules` (source per universe). Returns the
/// indices of universes that compiled.
fn build_origin(tag: &str, modules: &[String]) -> Result<Vec<usize>, String> {
    let dir = std::path::Path::new(ORIGIN_DIR).join(tag);
    let _ = std::fs::remove_dir_all(&dir);
    std::fs::create_dir_all(dir.join("src")).map_err(|e| e.to_string())?;
    std::fs::write(
        dir.join("Cargo.toml"),
        format!("[package]\nname = \"origin-{}\"\nversion = \"0.0.0\"\nedition = \"2021\"\n\n[dependencies]\nserde = {{ version = \"1.0.219\", features = [\"derive\"] }}\nserde_json = \"1.0.140\"\nschemars = \"0.8.22\"\n\n[profile.dev]\ndebug = 0\n\n[workspace]\n", tag.to_lowercase()),
    )
    .map_err(|e| e.to_string())?;
    std::fs::copy("/repo/Cargo.lock", dir.join("Cargo.lock")).ok();
    let mut alive: Vec<usize> = (0..modules.len()).collect();
    for round in 0..6 {
        let mut main = String::from("#![allow(warnings)]\n");
        for k in &alive {
            std::fs::write(dir.join(format!("src/u{k}.rs")), modules[*k].replace("@K@", &k.to_string())).map_err(|e| e.to_string())?;
            main.push_str(&format!("#[path = \"u{k}.rs\"] mod uu{k}; use uu{k}::u{k};\n"));
        }
        main.push_str(gr::ORIGIN_MAIN);
        main.push_str("fn dump_all() {\n");
        for k in &alive {
            main.push_str(&format!("    u{k}::dump();\n"));
        }
        main.push_str("}\nfn verify_any(u: usize, t: usize, i: usize, w: &serde_json::Value) -> Option<bool> {\n    match u {\n");
        for k in &alive {
            main.push_str(&format!("        {k} => u{k}::verify(t, i, w),\n"));
        }
        main.push_str("        _ => None,\n    }\n}\n");
        std::fs::write(dir.join("src/main.rs"), main).map_err(|e| e.to_string())?;
        let out = Command::new("cargo")
            .arg(TOOLCHAIN)
            .args(["build", "--offline", "--message-format=json", "-q"])
            .current_dir(&dir)
            .env("CARGO_TARGET_DIR", ORIGIN_TARGET)
            .env("CARGO_NET_OFFLINE", "true")
            .env("RUSTFLAGS", "-Awarnings")
            .output()
            .map_err(|e| format!("cargo: {e}"))?;
        if out.status.success() {
            return Ok(alive);
        }
        // drop universes with errors (a generator defect, counted by the caller)
        let mut bad = std::collections::BTreeSet::new();
        for line in String::from_utf8_lossy(&out.stdout).lines() {
            let Ok(v) = serde_json::from_str::<Value>(line) else { continue };
            if v["reason"] != "compiler-message" || v["message"]["level"] != "error" {
                continue;
            }
            fn find(span: &Value) -> Option<usize> {
                let f = span["file_name"].as_str()?;
                if let Some(rest) = f.rsplit('/').next().and_then(|n| n.strip_prefix('u')).and_then(|n| n.strip_suffix(".rs")) {
                    return rest.parse().ok();
                }
                if !span["expansion"].is_null() {
                    return find(&span["expansion"]["span"]);
                }
                None
            }
            for s in v["message"]["spans"].as_array().into_iter().flatten() {
                if let Some(k) = find(s) {
                    bad.insert(k);
                }
            }
        }
        if bad.is_empty() || round == 5 {
            return Err(format!("origin crate does not build: {}", String::from_utf8_lossy(&out.stderr).chars().take(3000).collect::<String>()));
        }
        alive.retain(|k| !bad.contains(k));
    }
    Err("origin crate: too many rounds".into())
}

/// Real schemars documents (with samples) for `n` random universes.
pub fn schemars_cases(tag: &str, seed: u64, n: usize, samples: usize) -> Result<(Vec<Value>, usize), String> {
    let modules: Vec<String> = gen::draw(seed, &format!("{tag}-universe"), n, move |g: &mut G| {
        let u = gr::universe(g);
        // the module index is patched in by build_origin
        let src = gr::module_src(g, 424242, &u, samples);
        src.replace("u424242", "u@K@").replace("(424242,", "(@K@,")
    });
    let alive = build_origin(tag, &modules)?;
    let dropped = modules.len() - alive.len();
    let out = Command::new(origin_bin(tag)).arg("dump").output().map_err(|e| format!("origin dump: {e}"))?;
    if !out.status.success() {
        return Err(format!("origin dump failed: {}", String::from_utf8_lossy(&out.stderr).chars().take(2000).collect::<String>()));
    }
    let mut cases = vec![];
    for line in String::from_utf8_lossy(&out.stdout).lines() {
        if let Ok(v) = serde_json::from_str::<Value>(line) {
            cases.push(v);
        }
    }
    Ok((cases, dropped))
}

struct Verifier {
    _child: Child,
    stdin: ChildStdin,
    stdout: BufReader<ChildStdout>,
}

static VERIFIER: Mutex<Option<Verifier>> = Mutex::new(None);

fn origin_verify(u: u64, t: u64, i: usize, w: &Value) -> Result<Option<bool>, String> {
    let mut guard = VERIFIER.lock().unwrap();
    if guard.is_none() {
        let mut child = Command::new(origin_bin("C04")).arg("verify").stdin(Stdio::piped()).stdout(Stdio::piped()).stderr(Stdio::null()).spawn().map_err(|e| format!("origin verify: {e}"))?;
        let stdin = child.stdin.take().unwrap();
        let stdout = BufReader::new(child.stdout.take().unwrap());
        *guard = Some(Verifier { _child: child, stdin, stdout });
    }
    let v = guard.as_mut().unwrap();
    let line = json!({"u": u, "t": t, "i": i, "w": w}).to_string();
    v.stdin.write_all(line.as_bytes()).and_then(|_| v.stdin.write_all(b"\n")).and_then(|_| v.stdin.flush()).map_err(|e| e.to_string())?;
    let mut out = String::new();
    v.stdout.read_line(&mut out).map_err(|e| e.to_string())?;
    let r: Value = serde_json::from_str(&out).map_err(|e| format!("origin verify reply {out:?}: {e}"))?;
    Ok(r["ok"].as_bool())
}

fn root_schema_only(doc: &Value) -> Value {
    let mut o = doc.as_object().cloned().unwrap_or_default();
    o.remove("definitions");
    o.remove("$schema");
    Value::Object(o)
}

impl Property for C04 {
    fn id(&self) -> &'static str {
        "C04"
    }
    fn rule(&self) -> String {
        "random universes of 2-5 Rust type definitions (named-field, tuple, newtype and unit structs; enums under all four serde tagging modes with unit/newtype/tuple/struct variants; rename, rename_all, default, deny_unknown_fields, skip_serializing_if; scalars, NonZero, floats, char, Option, Vec, maps, sets, tuples, fixed arrays, Box, references incl. recursion through Vec/Option<Box>) are compiled with real serde + schemars; one case = one root type: its schema_for!() document and sample values written as Rust expressions; both ingestion routes are generated and compiled side by side; non-trivial = the root is an enum, has a serde attribute or references another universe type, and at least one sample survives the origin's own round trip; distinct by (schema, samples)".into()
    }
    fn assumptions(&self) -> Vec<String> {
        vec![
            "samples the original type itself does not round-trip (ambiguous untagged enums) are discarded and counted".into(),
            "ingestion failures of schemars documents are C01's subject (supported fragment) and only counted here".into(),
        ]
    }
    fn generate(&self, tier: Tier, seed: u64) -> Vec<Value> {
        match schemars_cases("C04", seed, tier.pick(120, 1500), 6) {
            Ok((cases, dropped)) => {
                gen::excluded("universes-not-compilable(generator)", dropped as u64);
                cases
            }
            Err(e) => {
                eprintln!("INFRA: {e}");
                std::process::exit(2);
            }
        }
    }
    fn prepare(&self, c: &Value) -> Unit {
        let doc = &c["schema"];
        let Some(samples) = c["samples"].as_array() else { return invalid_unit("not a C04 case".into()) };
        let keep: Vec<bool> = c["roundtrips"].as_array().map(|a| a.iter().map(|b| b.as_bool().unwrap_or(false)).collect()).unwrap_or_default();
        let title = doc["title"].as_str().map(|s| s.to_string());
        let mut unit = Unit::default();
        if title.as_ref().map(|t| doc["definitions"].get(t).is_some()).unwrap_or(false) {
            // known finding KF-023 (C01): the recursive root is emitted twice
            unit.counters.insert("excluded_recursive_root_document".into(), 1);
            unit.outcome = Outcome::Err;
            unit.message = "excluded: recursive root document (KF-023)".into();
            return unit;
        }
        let route1 = Case { history: vec![Step::Root { doc: doc.clone() }], roots: vec![RootSel::Step { step: 0 }], ..Default::default() };
        let route2 = Case {
            history: vec![Step::Refs { defs: doc.get("definitions").cloned().unwrap_or(json!({})) }, Step::Type { schema: root_schema_only(doc), hint: title.clone() }],
            roots: vec![RootSel::Step { step: 1 }],
            ..Default::default()
        };
        let mut i1 = ingest::ingest(&route1);
        let mut i2 = ingest::ingest(&route2);
        unit.outcome = i1.outcome.clone();
        unit.message = i1.message.clone();
        if i1.outcome != Outcome::Ok || i2.outcome != Outcome::Ok {
            if i1.outcome != i2.outcome {
                unit.violations.push(Violation::new("routes-differ-in-acceptance", format!("root document: {:?} {} / definitions map: {:?} {}", i1.outcome, i1.message, i2.outcome, i2.message)));
                unit.outcome = Outcome::Ok;
            }
            return unit;
        }
        let id1 = ingest::resolve_roots(&mut i1, &route1);
        let id2 = ingest::resolve_roots(&mut i2, &route2);
        let mut sink = vec![];
        let (Some(r1), Some(r2)) = (render_checked(&i1, &mut sink), render_checked(&i2, &mut sink)) else {
            unit.counters.insert("not_evaluated_render_failed".into(), 1);
            return unit;
        };
        let (Some(f1), Some(f2)) = (id1.first().cloned().flatten().and_then(|id| ingest::fact_of(&i1.space, &id)), id2.first().cloned().flatten().and_then(|id| ingest::fact_of(&i2.space, &id))) else {
            unit.violations.push(Violation::new("root-type-unresolved", "the root type cannot be located through the API".to_string()));
            return unit;
        };
        let mut drv = Driver::new();
        // identifiers are resolved inside the module of their route (they may be built-in paths)
        drv.arm_expr(0, "rt", format!("{{ use r1::*; crate::rt::rt::<{}>(arg) }}", f1.ident));
        drv.arm_expr(1, "rt", format!("{{ use r2::*; crate::rt::rt::<{}>(arg) }}", f2.ident));
        for (i, s) in samples.iter().enumerate() {
            if keep.get(i).copied().unwrap_or(false) {
                unit.probes.push(Probe { root: 0, op: "rt".into(), arg: s.clone(), tag: i.to_string() });
                unit.probes.push(Probe { root: 1, op: "rt".into(), arg: s.clone(), tag: i.to_string() });
            } else {
                *unit.counters.entry("samples_discarded_origin_roundtrip".into()).or_default() += 1;
            }
        }
        let gen_rs = format!("pub mod r1 {{\n{}\n}}\npub mod r2 {{\n{}\n}}\n", r1.text, r2.text);
        let (m, keys) = module(&None, gen_rs, &drv);
        unit.module = Some(m);
        unit.info = json!({"drv_keys": keys});
        let txt = doc.to_string();
        unit.nontrivial = !unit.probes.is_empty() && (txt.contains("oneOf") || txt.contains("anyOf") || txt.contains("$ref") || txt.contains("Renamed") || txt.contains("additionalProperties"));
        unit
    }
    fn shrinks(&self, _c: &Value) -> bool {
        // schema and samples come from the origin crate: they are not shrunk
        false
    }
    fn judge(&self, c: &Value, unit: &Unit, compile: &CompileStatus, probes: &[ProbeResult], _py: &mut Py) -> Result<Judged, String> {
        let mut j = Judged::default();
        match compile {
            CompileStatus::Ok => {}
            CompileStatus::NotCompiled => return Ok(j),
            CompileStatus::Failed(diags) => {
                if diags.iter().all(|d| d.file != "gen") {
                    let d = &diags[0];
                    return Err(format!("harness driver does not compile: {} {} | {}", d.code, d.message, d.snippet));
                }
                *j.counters.entry("not_evaluated_uncompilable".into()).or_default() += 1;
                if let Some(d) = diags.iter().find(|d| d.file == "gen") {
                    *j.counters.entry(format!("uncompilable:{}:{}", d.code, d.message.chars().take(60).collect::<String>())).or_default() += 1;
                    // a type that does not compile accepts nothing. Duplicate definitions (E0428) are
                    // the self-referential-root finding listed under C01 (KF-023) and stay with C01.
                    if d.code != "E0428" {
                        j.violations.push(Violation::new("generated-type-does-not-compile", format!("{} {} | {}", d.code, d.message, d.snippet)));
                    }
                }
                return Ok(j);
            }
        }
        let (u, t) = (c["u"].as_u64().unwrap_or(0), c["t"].as_u64().unwrap_or(0));
        let mut k = 0;
        while k + 1 < unit.probes.len() {
            let (p1, r1, r2) = (&unit.probes[k], &probes[k], &probes[k + 1]);
            k += 2;
            let i: usize = p1.tag.parse().unwrap_or(0);
            *j.counters.entry("samples_judged".into()).or_default() += 1;
            for (route, r) in [("root document", r1), ("definitions map", r2)] {
                match r {
                    ProbeResult::Ok(out) => {
                        let w = out.get("first").cloned().unwrap_or(Value::Null);
                        match origin_verify(u, t, i, &w)? {
                            Some(true) => {}
                            Some(false) => j.violations.push(Violation::new("reserialised-value-differs", format!("route {route}: sample {} re-serialises to {} which the original type does not read back as the same value", p1.arg, w))),
                            None => return Err("origin verify gave no answer".into()),
                        }
                    }
                    ProbeResult::NotRun => return Err("probe not run on a compiled module".into()),
                    other => j.violations.push(Violation::new("serialization-of-original-rejected", format!("route {route}: to_value(x) = {} is not accepted by the generated type: {}", p1.arg, other.brief()))),
                }
            }
            let same = match (r1, r2) {
                (ProbeResult::Ok(a), ProbeResult::Ok(b)) => a == b,
                (ProbeResult::Err(_), ProbeResult::Err(_)) => true,
                _ => false,
            };
            if !same {
                j.violations.push(Violation::new("routes-differ-in-behaviour", format!("sample {}: root document route gives {}, definitions route gives {}", p1.arg, r1.brief(), r2.brief())));
            }
        }
        let mut seen = std::collections::BTreeSet::new();
        j.violations.retain(|v| seen.insert(v.symptom.clone()));
        Ok(j)
    }
    fn sample(&self, case: &Value) -> Value {
        json!({"schema": case["schema"], "samples": case["samples"].as_array().map(|a| a.iter().take(2).cloned().collect::<Vec<_>>())})
    }
    fn predicate(&self, name: &str, case: &Value, v: &Violation) -> bool {
        super::predicates::check(name, case, v)
    }
}
