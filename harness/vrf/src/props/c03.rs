//! C03 -- round trip keeps declared data, stays schema-valid, is idempotent.

use super::common::*;
use super::values::*;
use crate::case::*;
use crate::compile::{CompileStatus, ProbeResult};
use crate::engine::*;
use crate::gen::{self, schema as gs};
use crate::py::Py;
use serde_json::{Map, Value};

pub struct C03;

fn resolve<'a>(doc: &'a Value, r: &str) -> Option<&'a Value> {
    doc.pointer(r.strip_prefix('#')?)
}

fn shallow_type_ok(s: &Value, v: &Value) -> bool {
    let Some(o) = s.as_object() else { return true };
    match o.get("type") {
        Some(Value::String(t)) => crate::gen::instance::json_type_matches(t, v),
        Some(Value::Array(ts)) => ts.iter().filter_map(|t| t.as_str()).any(|t| crate::gen::instance::json_type_matches(t, v)),
        _ => true,
    }
}

/// Can the object alternative `b` apply to `v` at all? Not when one of its required members is
/// missing, or a member it fixes to a single value (a tag) has another value.
fn tags_compatible(b: &Value, v: &Value) -> bool {
    let Some(vo) = v.as_object() else { return true };
    if let Some(req) = b.get("required").and_then(|r| r.as_array()) {
        if req.iter().filter_map(|r| r.as_str()).any(|r| !vo.contains_key(r)) {
            return false;
        }
    }
    // a closed alternative cannot apply to an object with a member it does not declare
    if b.get("additionalProperties") == Some(&Value::Bool(false)) {
        let declared = b.get("properties").and_then(|p| p.as_object());
        if vo.keys().any(|k| declared.map(|d| !d.contains_key(k)).unwrap_or(true)) {
            return false;
        }
    }
    if let Some(props) = b.get("properties").and_then(|p| p.as_object()) {
        for (k, ps) in props {
            let fixed = ps.get("enum").and_then(|e| e.as_array()).filter(|e| e.len() == 1).map(|e| e[0].clone()).or_else(|| ps.get("const").cloned());
            if let (Some(f), Some(x)) = (fixed, vo.get(k)) {
                if &f != x {
                    return false;
                }
            }
        }
    }
    true
}

/// Does `v` contain only members the schema *declares* (DESIGN B.3)?
/// Conservative: answers false whenever unsure (the probe is then skipped).
pub fn only_declared(doc: &Value, s: &Value, v: &Value, fuel: usize) -> bool {
    if fuel == 0 {
        return false;
    }
    let o = match s {
        Value::Bool(true) => return true,
        Value::Object(o) => o,
        _ => return false,
    };
    if let Some(r) = o.get("$ref").and_then(|r| r.as_str()) {
        return resolve(doc, r).map(|t| only_declared(doc, t, v, fuel - 1)).unwrap_or(false);
    }
    for key in ["oneOf", "anyOf"] {
        if let Some(bs) = o.get(key).and_then(|b| b.as_array()) {
            // every alternative that could apply must declare all members
            let applicable: Vec<&Value> = bs.iter().filter(|b| b.get("$ref").is_some() || (shallow_type_ok(b, v) && tags_compatible(b, v))).collect();
            return !applicable.is_empty() && applicable.iter().all(|b| only_declared(doc, b, v, fuel - 1));
        }
    }
    if let Some(bs) = o.get("allOf").and_then(|b| b.as_array()) {
        // objects: a member is declared if some branch lists it
        let Some(vo) = v.as_object() else { return true };
        return vo.iter().all(|(k, x)| {
            bs.iter().any(|b| b.get("properties").and_then(|p| p.get(k)).map(|ps| only_declared(doc, ps, x, fuel - 1)).unwrap_or(false))
        });
    }
    match v {
        Value::Object(vo) => {
            if o.is_empty() {
                return true; // {} = serde_json::Value keeps everything
            }
            let empty = Map::new();
            let props = o.get("properties").and_then(|p| p.as_object()).unwrap_or(&empty);
            vo.iter().all(|(k, x)| {
                if let Some(ps) = props.get(k) {
                    only_declared(doc, ps, x, fuel - 1)
                } else {
                    match o.get("additionalProperties") {
                        Some(ap @ Value::Object(_)) => only_declared(doc, ap, x, fuel - 1),
                        Some(Value::Bool(false)) => false,
                        // a pure map of anything (no properties at all)
                        _ => props.is_empty() && !o.contains_key("required"),
                    }
                }
            })
        }
        Value::Array(va) => match o.get("items") {
            Some(Value::Array(items)) => va.iter().enumerate().all(|(i, x)| items.get(i).map(|is| only_declared(doc, is, x, fuel - 1)).unwrap_or(false)),
            Some(item) => va.iter().all(|x| only_declared(doc, item, x, fuel - 1)),
            None => true,
        },
        _ => true,
    }
}

fn droppable(v: &Value) -> bool {
    match v {
        Value::Null => true,
        Value::Array(a) => a.is_empty(),
        Value::Object(o) => o.is_empty(),
        _ => false,
    }
}

fn default_like(v: &Value) -> bool {
    match v {
        Value::Null => true,
        Value::Bool(b) => !*b,
        Value::Number(n) => n.as_f64() == Some(0.0),
        Value::String(s) => s.is_empty(),
        Value::Array(a) => a.is_empty(),
        Value::Object(o) => o.values().all(default_like),
    }
}

fn num_eq(a: &serde_json::Number, b: &serde_json::Number) -> bool {
    if let (Some(x), Some(y)) = (a.as_i64(), b.as_i64()) {
        return x == y;
    }
    if let (Some(x), Some(y)) = (a.as_u64(), b.as_u64()) {
        return x == y;
    }
    a.as_f64() == b.as_f64()
}

fn collect_defaults(v: &Value, out: &mut Vec<Value>) {
    match v {
        Value::Object(o) => {
            if let Some(d) = o.get("default") {
                out.push(d.clone());
            }
            o.values().for_each(|x| collect_defaults(x, out));
        }
        Value::Array(a) => a.iter().for_each(|x| collect_defaults(x, out)),
        _ => {}
    }
}

/// prune(v) ⊑ w ; Err(path, what). `defaults`: the schema defaults of the
/// document (a member the round trip adds may carry one of them).
fn contained(v: &Value, w: &Value, path: &str, defaults: &[Value]) -> Result<(), (String, String)> {
    match (v, w) {
        (Value::Object(a), Value::Object(b)) => {
            for (k, x) in a {
                if droppable(x) {
                    if let Some(y) = b.get(k) {
                        if !droppable(y) && !default_like(y) {
                            // an empty member may come back filled only with defaults
                            contained(x, y, &format!("{path}/{k}"), defaults)?;
                        }
                    }
                    continue;
                }
                match b.get(k) {
                    Some(y) => contained(x, y, &format!("{path}/{k}"), defaults)?,
                    None => return Err((format!("{path}/{k}"), "lost-member".into())),
                }
            }
            for (k, y) in b {
                if !a.contains_key(k) && !default_like(y) && !defaults.contains(y) {
                    return Err((format!("{path}/{k}"), "added-member".into()));
                }
            }
            Ok(())
        }
        (Value::Array(a), Value::Array(b)) => {
            if a.len() != b.len() {
                return Err((path.to_string(), "array-length".into()));
            }
            let pos = a.iter().zip(b).enumerate().try_for_each(|(i, (x, y))| contained(x, y, &format!("{path}/{i}"), defaults));
            if pos.is_err() && a.iter().all(|x| !x.is_array() && !x.is_object()) {
                // sets serialise in arbitrary order: compare scalars as multisets
                let mut sa: Vec<String> = a.iter().map(|x| x.to_string()).collect();
                let mut sb: Vec<String> = b.iter().map(|x| x.to_string()).collect();
                sa.sort();
                sb.sort();
                if sa == sb {
                    return Ok(());
                }
            }
            pos
        }
        (Value::Number(a), Value::Number(b)) => {
            if num_eq(a, b) {
                Ok(())
            } else {
                Err((path.to_string(), "value-changed".into()))
            }
        }
        (a, b) => {
            if a == b {
                Ok(())
            } else {
                Err((path.to_string(), "value-changed".into()))
            }
        }
    }
}

impl Property for C03 {
    fn id(&self) -> &'static str {
        "C03"
    }
    fn rule(&self) -> String {
        "an evaluation is one generated case: a document from the faithful grammar F plus, per definition, schema-directed instances; only python-valid instances that contain declared members only are judged; non-trivial = at least one judged instance that is a non-empty object/array; distinct by canonical JSON of the case".into()
    }
    fn assumptions(&self) -> Vec<String> {
        vec![
            "python jsonschema Draft7Validator re-validates the serialised output".into(),
            "arrays of scalars that differ only in order are accepted (sets serialise in arbitrary order)".into(),
            "members added by the round trip must be default-like (null, false, 0, \"\", [], {} or objects of those)".into(),
        ]
    }
    fn generate(&self, tier: Tier, seed: u64) -> Vec<Value> {
        let cfg = gs::Cfg::faithful();
        gen::draw(seed, "C03", tier.pick(700, 14000), move |g| gen_value_case(g, &cfg, "rt", 8, 0, "F"))
    }
    fn prepare(&self, case: &Value) -> Unit {
        prepare_values(case, &want_serde, &["rt"]).unit
    }
    fn in_domain(&self, case: &Value) -> bool {
        value_case_in_faithful(case)
    }
    fn judge(&self, case_v: &Value, unit: &Unit, compile: &CompileStatus, probes: &[ProbeResult], py: &mut Py) -> Result<Judged, String> {
        let mut j = Judged::default();
        if !compiled_ok(compile, &mut j)? {
            return Ok(j);
        }
        let case = parse_case(case_v)?;
        let doc = history_document(&case);
        let verdicts = classify(&case, &unit.probes, py)?;
        let mut schema_defaults = vec![];
        collect_defaults(&doc, &mut schema_defaults);
        let mut judged = 0u64;
        let mut nontrivial = false;
        // second python round: validity of the outputs
        let mut outputs: Vec<(usize, Value)> = vec![];
        for (i, ((p, r), valid)) in unit.probes.iter().zip(probes).zip(&verdicts).enumerate() {
            if *valid != Some(true) {
                continue;
            }
            let Some(RootSel::Ref { r: rref }) = case.roots.get(p.root) else { continue };
            let Some(schema) = resolve(&doc, rref) else { continue };
            if !only_declared(&doc, schema, &p.arg, 24) {
                *j.counters.entry("skipped_undeclared_members".into()).or_default() += 1;
                continue;
            }
            judged += 1;
            if structured(&p.arg) {
                nontrivial = true;
            }
            match r {
                ProbeResult::Ok(out) => {
                    let first = out.get("first").cloned().unwrap_or(Value::Null);
                    if let Some(e) = out.get("second_err") {
                        j.violations.push(Violation::new("rt-second-de-failed", format!("root {} instance {}: serialised form {} does not deserialise again: {}", p.root, p.arg, first, e)));
                        continue;
                    }
                    let second = out.get("second").cloned().unwrap_or(Value::Null);
                    if second != first {
                        j.violations.push(Violation::new("rt-not-idempotent", format!("root {} instance {}: first {} second {}", p.root, p.arg, first, second)));
                    }
                    if let Err((path, what)) = contained(&p.arg, &first, "", &schema_defaults) {
                        j.violations.push(Violation::new(format!("rt-{what}"), format!("root {} instance {} came back as {} (at {})", p.root, p.arg, first, path)));
                    }
                    outputs.push((i, first));
                }
                ProbeResult::Err(e) if e.starts_with("SERIALIZE-FAILED") => {
                    j.violations.push(Violation::new("rt-serialize-failed", format!("root {} instance {}: {}", p.root, p.arg, e)));
                }
                // a valid instance that is rejected is C02's subject
                ProbeResult::Err(_) => *j.counters.entry("valid_rejected_c02".into()).or_default() += 1,
                ProbeResult::NotRun => return Err("probe not run on a compiled module".into()),
                other => j.violations.push(Violation::new("rt-panic", format!("root {} instance {}: {}", p.root, p.arg, other.brief()))),
            }
        }
        // validity of outputs, per root
        for (ri, root) in case.roots.iter().enumerate() {
            let RootSel::Ref { r } = root else { continue };
            let mine: Vec<&(usize, Value)> = outputs.iter().filter(|(i, _)| unit.probes[*i].root == ri).collect();
            if mine.is_empty() {
                continue;
            }
            let insts: Vec<Value> = mine.iter().map(|(_, w)| w.clone()).collect();
            let vs = py.validate(&doc, Some(r), &insts)?;
            for ((i, w), ok) in mine.iter().zip(vs) {
                if ok == Some(false) {
                    j.violations.push(Violation::new("rt-output-invalid", format!("root {} instance {} serialises to {} which is not valid under the schema", ri, unit.probes[*i].arg, w)));
                }
            }
        }
        j.counters.insert("instances_judged".into(), judged);
        j.nontrivial = Some(nontrivial);
        let mut seen = std::collections::BTreeSet::new();
        j.violations.retain(|v| seen.insert(v.symptom.clone()));
        Ok(j)
    }
    fn predicate(&self, name: &str, case: &Value, v: &Violation) -> bool {
        super::predicates::check(name, case, v)
    }
}
