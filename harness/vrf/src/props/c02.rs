//! C02 -- every schema-valid JSON instance deserialises into the generated type.

use super::common::*;
use super::values::*;
use crate::compile::{CompileStatus, ProbeResult};
use crate::engine::*;
use crate::gen::{self, schema as gs};
use crate::py::Py;
use serde_json::Value;

pub struct C02;

fn has_integer_beyond_i64(v: &Value) -> bool {
    match v {
        Value::Number(n) => n.is_u64() && !n.is_i64(),
        Value::Array(a) => a.iter().any(has_integer_beyond_i64),
        Value::Object(o) => o.values().any(has_integer_beyond_i64),
        _ => false,
    }
}

impl Property for C02 {
    fn id(&self) -> &'static str {
        "C02"
    }
    fn rule(&self) -> String {
        "documents from the faithful grammar F (1-4 definitions); per definition schema-directed instances (valid-by-construction, boundary) plus single-edit mutants, every one classified by python jsonschema Draft7 (integer formats as ranges); an evaluation is one (schema, instance) pair; non-trivial = python-valid and structured (non-empty object/array) or a mutant that python still calls valid; distinct by (document, instance)".into()
    }
    fn assumptions(&self) -> Vec<String> {
        vec![
            "python jsonschema Draft7Validator is the independent validator; string formats are annotations, integer formats exact ranges".into(),
            "integers are written without fraction/exponent and stay inside i64 (u64 under uint64)".into(),
            "cases whose output does not compile are C01's subject and only counted here".into(),
        ]
    }
    fn generate(&self, tier: Tier, seed: u64) -> Vec<Value> {
        let cfg = gs::Cfg::faithful();
        gen::draw(seed, "C02", tier.pick(350, 12000), move |g| gen_value_case(g, &cfg, "de", 6, 12, "F"))
    }
    fn prepare(&self, case: &Value) -> Unit {
        prepare_values(case, &want_serde, &["de"]).unit
    }
    fn judge(&self, case_v: &Value, unit: &Unit, compile: &CompileStatus, probes: &[ProbeResult], py: &mut Py) -> Result<Judged, String> {
        let mut j = Judged::default();
        if !compiled_ok(compile, &mut j)? {
            return Ok(j);
        }
        let case = parse_case(case_v)?;
        let verdicts = classify(&case, &unit.probes, py)?;
        let mut nontrivial = 0u64;
        for ((p, r), valid) in unit.probes.iter().zip(probes).zip(verdicts) {
            *j.counters.entry("instances".into()).or_default() += 1;
            match valid {
                Some(true) => {
                    // a mutation can move a value that only `format: uint64` admits to a position
                    // typed by a plain `integer` (read as i64, the documented default): such
                    // instances are outside the fragment's instance domain
                    if p.tag.starts_with("mutant") && has_integer_beyond_i64(&p.arg) {
                        *j.counters.entry("skipped_mutant_moves_u64_value".into()).or_default() += 1;
                        continue;
                    }
                    *j.counters.entry("instances_valid".into()).or_default() += 1;
                    if structured(&p.arg) || p.tag.starts_with("mutant") {
                        nontrivial += 1;
                    }
                    if p.tag.starts_with("mutant") {
                        *j.counters.entry("valid_mutants".into()).or_default() += 1;
                    }
                    match r {
                        ProbeResult::Ok(_) => {}
                        ProbeResult::NotRun => return Err("probe not run on a compiled module".into()),
                        other => j.violations.push(Violation::new(
                            "valid-rejected",
                            format!("root {} ({:?}) instance {} [{}] is schema-valid but from_str gives {}", p.root, case.roots.get(p.root), p.arg, p.tag, other.brief()),
                        )),
                    }
                }
                Some(false) => *j.counters.entry("instances_invalid".into()).or_default() += 1,
                None => *j.counters.entry("instances_unjudged".into()).or_default() += 1,
            }
        }
        j.counters.insert("nontrivial_instances".into(), nontrivial);
        j.nontrivial = Some(nontrivial > 0);
        j.violations.dedup_by(|a, b| a.symptom == b.symptom);
        Ok(j)
    }
    fn in_domain(&self, case: &Value) -> bool {
        value_case_in_faithful(case)
    }
    fn predicate(&self, name: &str, case: &Value, v: &Violation) -> bool {
        super::predicates::check(name, case, v)
    }
}
