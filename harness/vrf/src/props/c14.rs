//! C14 -- replacement, conversion, patch, derive and map-type settings apply
//! everywhere (syntactic obligations on the parsed output) and change nothing
//! about the wire behaviour of the remaining types (metamorphic relation).

use super::common::*;
use super::values::*;
use crate::case::*;
use crate::compile::{CompileStatus, ProbeResult};
use crate::engine::*;
use crate::gen::instance::{mutants, Inst};
use crate::gen::{self, schema as gs, G};
use crate::ingest::{self, Outcome};
use crate::py::Py;
use serde_json::{json, Map, Value};

pub struct C14;

const REPL: &str = "crate::prelude::Mark3";
const CONV: &str = "crate::prelude::Mark5";
const CONV_STR: &str = "crate::prelude::Mark6";

const RENAMES: &[&str] = &["RenamedTarget", "RenamedTarget", "IORenamedTarget", "Renamed_Target_V2", "renamed_target_t"];

fn conv_schema() -> Value {
    json!({"type": "integer", "format": "int32", "minimum": 7})
}

fn target_schema(kind: &str) -> Value {
    match kind {
        "struct" => json!({"type": "object", "properties": {"tx": {"type": "integer"}, "ty": {"type": "string"}}, "required": ["tx"]}),
        "enum" => json!({"type": "string", "enum": ["tone", "ttwo"]}),
        // the same struct, nullable, with the type list in its common (non-sorted) spelling
        "struct-nullable" => json!({"type": ["object", "null"], "properties": {"tx": {"type": "integer"}, "ty": {"type": "string"}}, "required": ["tx"]}),
        "string-nullable" => json!({"type": ["string", "null"], "minLength": 1, "maxLength": 9}),
        _ => json!({"type": "string", "minLength": 1, "maxLength": 9}),
    }
}

pub fn gen_c14_case(g: &mut G) -> Value {
    let kind = *g.pick(&["struct", "struct", "struct", "enum", "newtype", "struct-nullable", "string-nullable"]);
    let t = json!({"$ref": "#/definitions/Target"});
    let mut defs = Map::new();
    defs.insert("Target".into(), target_schema(kind));
    defs.insert(
        "User".into(),
        json!({"type": "object", "properties": {
            "req": t, "opt": t, "items": {"type": "array", "items": t},
            "tup": {"type": "array", "items": [t, {"type": "integer"}], "minItems": 2, "maxItems": 2},
            "map": {"type": "object", "additionalProperties": t},
            "nul": {"oneOf": [t, {"type": "null"}]}
        }, "required": ["req", "tup", "nul"]}),
    );
    defs.insert("UnionExt".into(), json!({"oneOf": [{"type": "string", "enum": ["none"]}, {"type": "object", "properties": {"some": t}, "required": ["some"], "additionalProperties": false}]}));
    defs.insert("UnionInt".into(), json!({"oneOf": [
        {"type": "object", "properties": {"kind": {"type": "string", "enum": ["a"]}, "held": t}, "required": ["kind", "held"]},
        {"type": "object", "properties": {"kind": {"type": "string", "enum": ["b"]}, "num": {"type": "integer"}}, "required": ["kind"]}]}));
    defs.insert("UnionAdj".into(), json!({"oneOf": [
        {"type": "object", "properties": {"tag": {"type": "string", "enum": ["a"]}, "content": t}, "required": ["tag", "content"]},
        {"type": "object", "properties": {"tag": {"type": "string", "enum": ["b"]}, "content": {"type": "integer"}}, "required": ["tag", "content"]}]}));
    // a reference that survives a conjunction with a sibling adding no constraint
    defs.insert("TBase".into(), json!({"type": "object", "properties": {"owner": t, "name": {"type": "string"}}, "required": ["owner"]}));
    defs.insert("TDerived".into(), json!({"allOf": [{"$ref": "#/definitions/TBase"}, {"type": "object", "properties": {"owner": {"description": "the owner, described again"}}}]}));
    if kind == "struct" {
        defs.insert("Merged".into(), json!({"allOf": [t, {"type": "object", "properties": {"extra_m": {"type": "boolean"}}, "required": ["extra_m"]}]}));
    }
    let mut c1 = conv_schema();
    c1["description"] = json!("first use");
    let mut c2 = conv_schema();
    c2["title"] = json!("Second Use");
    defs.insert("ConvHolder".into(), json!({"type": "object", "properties": {"c1": c1, "c2": {"type": "array", "items": c2}, "c3": {"type": "object", "additionalProperties": conv_schema()}}, "required": ["c1"]}));
    defs.insert("MapHolder".into(), json!({"type": "object", "properties": {"m1": {"type": "object", "additionalProperties": {"type": "integer"}}, "m2": {"type": "object", "additionalProperties": t}, "many": {"type": "object"}, "keyed": {"type": "object", "propertyNames": {"pattern": "^[a-z]+$"}}}, "required": ["m1"]}));
    // unaffected types from the faithful grammar (no reference to Target, no CONV schema)
    let mut cfg = gs::Cfg::faithful();
    cfg.max_defs = 3;
    cfg.int_formats = false;
    let other = gs::document(g, &cfg);
    let mut others = vec![];
    for (k, v) in other["definitions"].as_object().cloned().unwrap_or_default() {
        let name = format!("Other{k}");
        // rewrite internal refs
        let txt = v.to_string().replace("#/definitions/", "#/definitions/Other");
        defs.insert(name.clone(), serde_json::from_str(&txt).unwrap());
        others.push(name);
    }
    let doc = json!({"definitions": Value::Object(defs)});
    // settings: at least one non-default
    let mut s = Settings::default();
    let mut which = vec![];
    loop {
        if g.chance(1, 2) {
            let impls = if kind.starts_with("struct") { vec![] } else { vec!["FromStr".to_string(), "Display".to_string()] };
            s.replace.insert("Target".into(), Replace { ty: REPL.into(), impls });
            which.push("replace");
        } else if g.chance(1, 2) {
            // extra derives: a single one, or several whose names are related (Eq/PartialEq ...)
            let derives: Vec<String> = if matches!(kind, "struct" | "enum" | "newtype") && g.chance(1, 2) {
                vec!["PartialEq".into(), "Eq".into(), "Hash".into(), "PartialOrd".into(), "Ord".into()]
            } else {
                vec!["PartialEq".into()]
            };
            // the new name is taken as written: valid identifiers that are not canonical Pascal case too
            let new_name = *g.pick(RENAMES);
            s.patch.insert("Target".into(), Patch { rename: Some(new_name.into()), derives });
            which.push("patch");
        }
        if g.chance(1, 2) {
            // the conversion schema itself may carry annotations (they play no part in matching)
            let mut cs = conv_schema();
            match g.below(3) {
                0 => cs["description"] = json!("the converted integer"),
                1 => cs["title"] = json!("Conv Title"),
                _ => {}
            }
            s.convert.push(Convert { schema: cs, ty: CONV.into(), impls: vec!["Display".into(), "FromStr".into(), "Default".into()] });
            which.push("convert");
        }
        if g.chance(1, 4) {
            // a conversion for the plain string schema: constrained strings are different schemas
            // and keep their own types (the stand-in behaves like String on the wire)
            s.convert.push(Convert { schema: json!({"type": "string"}), ty: CONV_STR.into(), impls: vec!["Display".into(), "FromStr".into(), "Default".into()] });
            which.push("convert-string");
        }
        // (next to a patch the settings-wide derive repeats one of the patch's: harmless)
        if g.chance(if s.patch.is_empty() { 1 } else { 2 }, 3) {
            s.derives.push("PartialEq".into());
            which.push("derive");
        }
        if g.chance(1, 2) {
            s.map_type = Some(g.pick(MAP_TYPES).to_string());
            which.push("map");
        }
        if g.chance(1, 2) {
            s.struct_builder = true;
            which.push("builder");
        }
        if !which.is_empty() {
            break;
        }
    }
    // instances for the unaffected types
    let inst = Inst::new(&doc);
    let mut probes = vec![];
    for (k, name) in others.iter().enumerate() {
        let schema = doc["definitions"][name].clone();
        for i in 0..4 {
            let v = inst.gen(g, &schema, 3);
            if i < 2 {
                for (tg, m) in mutants(g, &v, 3) {
                    probes.push(Probe { root: k, op: "rt".into(), arg: m, tag: tg });
                }
            }
            probes.push(Probe { root: k, op: "rt".into(), arg: v, tag: "valid-by-construction".into() });
        }
    }
    let case = Case {
        settings: s,
        history: vec![Step::Root { doc }],
        roots: others.iter().map(|n| RootSel::Ref { r: format!("#/definitions/{n}") }).collect(),
        probes,
        extra: json!({"target_kind": kind}),
        features: which.iter().map(|w| w.to_string()).collect(),
    };
    gen::to_value(&case)
}

fn field_ty<'a>(ix: &'a crate::analyse::Index, item: &str, field: &str) -> Option<&'a str> {
    ix.items.get(item)?.fields.iter().find(|f| f.ident.as_deref() == Some(field)).map(|f| f.ty.as_str())
}

fn variant_tys(ix: &crate::analyse::Index, item: &str) -> Vec<String> {
    ix.items.get(item).map(|it| it.variants.iter().flat_map(|v| v.fields.iter().map(|f| f.ty.clone())).collect()).unwrap_or_default()
}

/// does a type string mention identifier `name` as a path segment?
fn mentions(ty: &str, name: &str) -> bool {
    ty.split(|c: char| !(c.is_alphanumeric() || c == '_')).any(|seg| seg == name)
}

impl Property for C14 {
    fn id(&self) -> &'static str {
        "C14"
    }
    fn rule(&self) -> String {
        "one case = a document in which a target definition (struct / string enum / constrained newtype) is used at every kind of site (required and optional property, array item, tuple position, map value, nullable union, variant payload of each tagging, allOf member), a conversion schema occurs at three sites with different annotations, maps of three flavours occur, plus 1-3 unrelated definitions from the faithful grammar; with a non-empty choice of settings (replacement, patch rename+derive, conversion, global derive, map type, builder); the same document is also generated under default settings and both outputs are compiled side by side; non-trivial = ingestion succeeds under both settings; distinct by canonical JSON".into()
    }
    fn assumptions(&self) -> Vec<String> {
        vec![
            "marker types are unique path strings, so occurrences are countable in field types".into(),
            "the remaining types are the unrelated definitions: they neither reach the target nor contain the conversion schema".into(),
        ]
    }
    fn chunk(&self) -> usize {
        // two renderings of a large scaffold per case: smaller batches keep rustc's memory bounded
        500
    }
    fn generate(&self, tier: Tier, seed: u64) -> Vec<Value> {
        gen::draw(seed, "C14", tier.pick(160, 5000), gen_c14_case)
    }
    fn prepare(&self, case_v: &Value) -> Unit {
        let case = match parse_case(case_v) {
            Ok(c) => c,
            Err(e) => return invalid_unit(e),
        };
        let mut unit = Unit::default();
        unit.classes.extend(case.features.iter().cloned());
        let mut ing = ingest::ingest(&case);
        unit.outcome = ing.outcome.clone();
        unit.message = ing.message.clone();
        let base_case = Case { settings: Settings::default(), ..case.clone() };
        let mut base = ingest::ingest(&base_case);
        if base.outcome != Outcome::Ok {
            // the document itself is not accepted: nothing to compare
            unit.outcome = base.outcome.clone();
            unit.message = format!("(default settings) {}", base.message);
            return unit;
        }
        if ing.outcome != Outcome::Ok {
            unit.violations.push(Violation::new("settings-change-acceptance", format!("accepted under default settings, but with {:?}: {:?} {}", case.features, ing.outcome, ing.message)));
            unit.outcome = Outcome::Ok;
            return unit;
        }
        let ids = ingest::resolve_roots(&mut ing, &case);
        let base_ids = ingest::resolve_roots(&mut base, &base_case);
        let mut sink = vec![];
        let (Some(r), Some(rb)) = (render_checked(&ing, &mut sink), render_checked(&base, &mut sink)) else { return unit };
        unit.nontrivial = true;
        let ix = &r.index;
        let kind = case.extra["target_kind"].as_str().unwrap_or("");
        let s = &case.settings;
        let v = &mut unit.violations;
        let sites: Vec<(&str, Option<String>)> = vec![
            ("User.req", field_ty(ix, "User", "req").map(|s| s.to_string())),
            ("User.opt", field_ty(ix, "User", "opt").map(|s| s.to_string())),
            ("User.items", field_ty(ix, "User", "items").map(|s| s.to_string())),
            ("User.tup", field_ty(ix, "User", "tup").map(|s| s.to_string())),
            ("User.map", field_ty(ix, "User", "map").map(|s| s.to_string())),
            ("User.nul", field_ty(ix, "User", "nul").map(|s| s.to_string())),
            ("MapHolder.m2", field_ty(ix, "MapHolder", "m2").map(|s| s.to_string())),
            ("TBase.owner", field_ty(ix, "TBase", "owner").map(|s| s.to_string())),
        ];
        // TDerived either wraps TBase (the conjunction added nothing) or restates its members
        let derived_wraps_base = ix.items.get("TDerived").map(|it| it.fields.iter().any(|f| f.ident.is_none() && mentions(&f.ty, "TBase"))).unwrap_or(false);
        let mut sites = sites;
        if !derived_wraps_base {
            sites.push(("TDerived.owner", field_ty(ix, "TDerived", "owner").map(|s| s.to_string())));
        }
        let union_sites: Vec<(&str, Vec<String>)> = vec![("UnionExt", variant_tys(ix, "UnionExt")), ("UnionInt", variant_tys(ix, "UnionInt")), ("UnionAdj", variant_tys(ix, "UnionAdj"))];
        let expect_name: Option<(&str, bool)> = if s.replace.contains_key("Target") {
            Some(("Mark3", true))
        } else if s.patch.contains_key("Target") {
            Some((s.patch["Target"].rename.as_deref().unwrap_or("RenamedTarget"), false))
        } else {
            None
        };
        if let Some((marker, is_replace)) = expect_name {
            let what = if is_replace { "replacement" } else { "patch" };
            if ix.items.contains_key("Target") {
                v.push(Violation::new(format!("{what}-target-still-generated"), "an item named Target is emitted".to_string()));
            }
            if !is_replace && !ix.items.contains_key(marker) {
                v.push(Violation::new("patch-new-name-missing", format!("no item {marker}; items: {:?}", ix.items.keys().take(12).collect::<Vec<_>>())));
            }
            for (site, ty) in &sites {
                match ty {
                    None => v.push(Violation::new("site-missing", format!("{site} not found in the output"))),
                    Some(ty) => {
                        if !mentions(ty, marker) || mentions(ty, "Target") {
                            v.push(Violation::new(format!("{what}-not-applied-at-site"), format!("{site}: type {ty} (expected to mention {marker} and not Target)")));
                        }
                    }
                }
            }
            for (site, tys) in &union_sites {
                if !tys.iter().any(|t| mentions(t, marker)) || tys.iter().any(|t| mentions(t, "Target")) {
                    v.push(Violation::new(format!("{what}-not-applied-at-site"), format!("{site}: variant payload types {:?} (expected to mention {marker} and not Target)", tys)));
                }
            }
            // old name nowhere: item names, field types, impl self types
            let leftovers: Vec<String> = ix
                .items
                .values()
                .flat_map(|it| it.fields.iter().map(|f| f.ty.clone()).chain(it.variants.iter().flat_map(|x| x.fields.iter().map(|f| f.ty.clone()))))
                .chain(ix.impls.iter().map(|i| i.self_ty.clone()))
                .chain(ix.impls.iter().map(|i| i.trait_.clone()))
                .filter(|t| mentions(t, "Target"))
                .collect();
            if !leftovers.is_empty() {
                v.push(Violation::new(format!("{what}-old-name-remains"), format!("Target still mentioned in {:?}", &leftovers[..leftovers.len().min(4)])));
            }
            if !is_replace {
                if let Some(it) = ix.items.get(marker) {
                    let wanted = s.patch.get("Target").map(|p| p.derives.clone()).unwrap_or_default();
                    let missing: Vec<&String> = wanted.iter().filter(|w| !it.derives.iter().any(|d| &d == w)).collect();
                    if !missing.is_empty() {
                        v.push(Violation::new("patch-derive-missing", format!("{marker} lacks {:?}; it derives {:?}", missing, it.derives)));
                    }
                }
            }
            if kind == "struct" {
                // allOf members are merged structurally, not referenced
                match ix.items.get("Merged") {
                    Some(m) => {
                        let names: Vec<String> = m.fields.iter().filter_map(|f| f.ident.clone()).collect();
                        if !(names.contains(&"tx".to_string()) && names.contains(&"extra_m".to_string())) || m.fields.iter().any(|f| mentions(&f.ty, marker) && f.ident.as_deref() != Some("tx") && f.ident.as_deref() != Some("ty")) {
                            v.push(Violation::new("allof-member-not-merged", format!("Merged has fields {:?}", m.fields.iter().map(|f| (f.ident.clone(), f.ty.clone())).collect::<Vec<_>>())));
                        }
                    }
                    None => v.push(Violation::new("site-missing", "Merged not found".to_string())),
                }
            }
        }
        if s.convert.iter().any(|c| c.ty == CONV) {
            for f in ["c1", "c2", "c3"] {
                match field_ty(ix, "ConvHolder", f) {
                    Some(ty) if mentions(ty, "Mark5") => {}
                    other => v.push(Violation::new("conversion-not-applied-at-site", format!("ConvHolder.{f}: type {:?}", other))),
                }
            }
        }
        if s.derives.iter().any(|d| d == "PartialEq") {
            for it in ix.items.values() {
                if !it.derives.iter().any(|d| d == "PartialEq") {
                    v.push(Violation::new("global-derive-missing", format!("{} derives {:?}", it.name, it.derives)));
                    break;
                }
            }
        }
        let map_path = s.map_type.clone().unwrap_or_else(|| "::std::collections::HashMap".into()).replace(' ', "");
        for (item, f) in [("MapHolder", "m1"), ("MapHolder", "m2"), ("MapHolder", "keyed"), ("User", "map"), ("ConvHolder", "c3")] {
            match field_ty(ix, item, f) {
                Some(ty) if ty.starts_with(&format!("{map_path}<")) => {}
                other => v.push(Violation::new("map-type-not-applied", format!("{item}.{f}: type {:?}, expected {map_path}<..>", other))),
            }
        }
        match field_ty(ix, "MapHolder", "many") {
            Some(ty) if ty.starts_with("::serde_json::Map<") => {}
            other => v.push(Violation::new("string-to-any-map-changed", format!("MapHolder.many: type {:?}", other))),
        }
        // behavioural half: both outputs side by side
        let mut drv = Driver::new();
        for (k, (a, b)) in base_ids.iter().zip(ids.iter()).enumerate() {
            let (Some(fa), Some(fb)) = (a.as_ref().and_then(|id| ingest::fact_of(&base.space, id)), b.as_ref().and_then(|id| ingest::fact_of(&ing.space, id))) else { continue };
            drv.arm_expr(2 * k, "rt", format!("{{ use base::*; crate::rt::rt::<{}>(arg) }}", fa.ident));
            drv.arm_expr(2 * k + 1, "rt", format!("{{ use with::*; crate::rt::rt::<{}>(arg) }}", fb.ident));
        }
        let gen_rs = format!("pub mod base {{\n{}\n}}\npub mod with {{\n{}\n}}\n", rb.text, r.text);
        let mut probes = vec![];
        for p in &case.probes {
            probes.push(Probe { root: 2 * p.root, ..p.clone() });
            probes.push(Probe { root: 2 * p.root + 1, ..p.clone() });
        }
        unit.probes = probes;
        let (m, keys) = module(&None, gen_rs, &drv);
        unit.module = Some(m);
        unit.info = json!({"drv_keys": keys});
        let mut seen = std::collections::BTreeSet::new();
        unit.violations.retain(|v| seen.insert(v.symptom.clone()));
        unit
    }
    fn judge(&self, _case_v: &Value, unit: &Unit, compile: &CompileStatus, probes: &[ProbeResult], _py: &mut Py) -> Result<Judged, String> {
        let mut j = Judged::default();
        if !compiled_ok(compile, &mut j)? {
            return Ok(j);
        }
        let mut i = 0;
        while i + 1 < unit.probes.len() {
            let (pa, pb) = (&unit.probes[i], &unit.probes[i + 1]);
            let (ra, rb) = (&probes[i], &probes[i + 1]);
            i += 2;
            if matches!(ra, ProbeResult::NotRun) || matches!(rb, ProbeResult::NotRun) {
                continue; // root not armed on one side
            }
            *j.counters.entry("behaviour_pairs".into()).or_default() += 1;
            let same = match (ra, rb) {
                (ProbeResult::Ok(a), ProbeResult::Ok(b)) => a == b,
                (ProbeResult::Err(_), ProbeResult::Err(_)) => true,
                (ProbeResult::Panic(_), ProbeResult::Panic(_)) => true,
                (ProbeResult::Crash(_), ProbeResult::Crash(_)) => true,
                _ => false,
            };
            if !same {
                let _ = pb;
                j.violations.push(Violation::new("settings-change-wire-behaviour", format!("unrelated type (root {}) instance {}: default settings {} vs configured {}", pa.root / 2, pa.arg, ra.brief(), rb.brief())));
            }
        }
        let mut seen = std::collections::BTreeSet::new();
        j.violations.retain(|v| seen.insert(v.symptom.clone()));
        Ok(j)
    }
    fn in_domain(&self, case_v: &Value) -> bool {
        let Ok(case) = parse_case(case_v) else { return false };
        let Some(Step::Root { doc }) = case.history.first() else { return false };
        let kind = case.extra["target_kind"].as_str().unwrap_or("");
        // the fixed scaffold must be intact; only the unrelated definitions, probes and settings shrink
        doc.pointer("/definitions/Target") == Some(&target_schema(kind))
            && ["User", "UnionExt", "UnionInt", "UnionAdj", "ConvHolder", "MapHolder"].iter().all(|d| doc.pointer(&format!("/definitions/{d}")).map(|x| x.to_string().len() > 40).unwrap_or(false))
            && doc.pointer("/definitions/User/properties").and_then(|p| p.as_object()).map(|p| p.len() == 6).unwrap_or(false)
            && doc.pointer("/definitions/ConvHolder/properties").and_then(|p| p.as_object()).map(|p| p.len() == 3).unwrap_or(false)
            && doc.pointer("/definitions/MapHolder/properties").and_then(|p| p.as_object()).map(|p| p.len() == 4).unwrap_or(false)
            && (kind != "struct" || doc.pointer("/definitions/Merged/allOf").and_then(|a| a.as_array()).map(|a| a.len() == 2).unwrap_or(false))
            && case.settings.replace.values().all(|r| r.ty == REPL)
            && case.settings.convert.iter().all(|c| {
                let mut bare = c.schema.clone();
                if let Some(o) = bare.as_object_mut() {
                    o.remove("description");
                    o.remove("title");
                }
                (bare == conv_schema() && c.ty == CONV) || (c.schema == json!({"type": "string"}) && c.ty == CONV_STR)
            })
            && case.settings.patch.values().all(|p| p.rename.as_deref().map(|r| RENAMES.contains(&r)).unwrap_or(false) && (p.derives == vec!["PartialEq".to_string()] || (matches!(kind, "struct" | "enum" | "newtype") && p.derives == ["PartialEq", "Eq", "Hash", "PartialOrd", "Ord"].iter().map(|d| d.to_string()).collect::<Vec<_>>())))
            && case.settings.map_type.as_ref().map(|m| MAP_TYPES.contains(&m.as_str())).unwrap_or(true)
            && case.settings.derives.iter().all(|d| d == "PartialEq")
            && case.settings.type_mod.is_none()
            && {
                // unrelated definitions stay inside F and unrelated
                let names = gs::def_names(doc);
                let others: Vec<String> = names.iter().filter(|n| n.starts_with("Other")).cloned().collect();
                others.iter().all(|n| gs::in_faithful(&doc["definitions"][n], &others))
            }
    }
    fn predicate(&self, name: &str, case: &Value, v: &Violation) -> bool {
        super::predicates::check(name, case, v)
    }
}
