//! C17 -- the introspection API describes the code that is generated.

use super::common::*;
use crate::case::*;
use crate::compile::{CompileStatus, ProbeResult};
use crate::engine::*;
use crate::gen::{self, schema as gs, G};
use crate::ingest::{self, Outcome};
use crate::py::Py;
use serde_json::{json, Value};

pub struct C17;

/// A document built around ONE construct that brings an external crate into the output (so
/// that the corresponding uses_* flag has to be set by that construct alone).
fn constructs() -> Vec<Value> {
    vec![
        json!({"type": "string", "format": "uuid"}),
        json!({"type": "string", "format": "date-time"}),
        json!({"type": "string", "format": "date"}),
        json!({"type": "string", "pattern": "^[a-z]+$"}),
        json!({"type": "array"}),
        json!({"type": "array", "uniqueItems": true}),
        json!({"type": "array", "items": {}}),
        json!({"type": "array", "items": {}, "uniqueItems": true}),
        json!({}),
        json!(true),
        json!({"type": "object"}),
        json!({"type": "object", "additionalProperties": true}),
        json!({"type": "object", "propertyNames": {"pattern": "^[a-z]+$"}}),
        json!({"type": "array", "items": [{}, {"type": "integer"}], "minItems": 2, "maxItems": 2}),
        json!({"type": ["string", "null"], "format": "uuid"}),
        json!({"type": "object", "additionalProperties": {"type": "string", "format": "date-time"}}),
        json!({"type": "integer", "default": 5}),
        json!({"type": "array", "items": {"type": "string"}, "default": ["a", "b"]}),
    ]
}

fn single_construct_doc(g: &mut G) -> Value {
    let cs = constructs();
    let k = g.below(cs.len());
    let required = g.chance(1, 2);
    let shape = g.below(3);
    construct_doc(&cs[k], required, shape)
}

fn construct_doc(c: &Value, required: bool, shape: usize) -> Value {
    let c = c.clone();
    let holder = match shape {
        0 => json!({"type": "object", "properties": {"member": c, "plain": {"type": "integer"}}, "required": if required { vec!["member"] } else { vec![] }}),
        1 => json!({"type": "object", "properties": {"plain": {"type": "integer"}}, "required": ["plain", "undeclared_member"]}),
        _ => json!({"oneOf": [{"type": "object", "properties": {"v": c}, "required": ["v"], "additionalProperties": false}, {"type": "string", "enum": ["unit"]}]}),
    };
    json!({"definitions": {"SoleHolder": holder}})
}

pub fn gen_c17_case(g: &mut G) -> Value {
    if g.chance(1, 5) {
        let doc = single_construct_doc(g);
        let mut s = Settings::default();
        s.struct_builder = g.chance(1, 2);
        let case = Case { settings: s, history: vec![Step::Root { doc }], ..Default::default() };
        return gen::to_value(&case);
    }
    let cfg = if g.chance(2, 3) { gs::Cfg::faithful() } else { gs::Cfg::wide() };
    let mut doc = gs::document(g, &cfg);
    // fixed-length arrays around std's limit of 32 for Default (and serde)
    if g.chance(1, 4) {
        let n = *g.pick(&[31, 32, 33, 40]);
        let item = g.pick(&[json!({"type": "integer"}), json!({"type": "string"}), json!({"type": "boolean"})]).clone();
        doc["definitions"]["BigArrayHolder"] = json!({"type": "object", "properties": {"big": {"type": "array", "items": item, "minItems": n, "maxItems": n}}, "required": ["big"]});
    }
    // an untagged union whose alternatives all offer FromStr/Display, defined before / after the
    // definition that one alternative refers to (what the API claims must not depend on that order)
    if g.chance(1, 3) {
        doc["definitions"]["AaUnionFirst"] = json!({"oneOf": [{"$ref": "#/definitions/ZzSide"}, {"type": "integer"}]});
        doc["definitions"]["ZzSide"] = json!({"type": "string", "enum": ["left", "right"]});
        doc["definitions"]["ZzUnionLast"] = json!({"oneOf": [{"$ref": "#/definitions/AaSide"}, {"type": "integer"}]});
        doc["definitions"]["AaSide"] = json!({"type": "string", "enum": ["up", "down"]});
        doc["definitions"]["MmUnionOfUnions"] = json!({"oneOf": [{"$ref": "#/definitions/ZzUnionLast"}, {"type": "boolean"}]});
    }
    // compound types over generated types: their reported identifiers must resolve from outside
    // the configured module just like those of named types
    if g.chance(1, 3) {
        doc["definitions"]["CompPoint"] = json!({"type": "object", "properties": {"x": {"type": "integer"}}, "required": ["x"]});
        doc["definitions"]["CompSegment"] = json!({"type": "object", "properties": {
            "ends": {"type": "array", "items": [{"$ref": "#/definitions/CompPoint"}, {"$ref": "#/definitions/CompPoint"}], "minItems": 2, "maxItems": 2},
            "trail": {"type": "array", "items": {"$ref": "#/definitions/CompPoint"}},
            "corners": {"type": "array", "items": {"$ref": "#/definitions/CompPoint"}, "minItems": 3, "maxItems": 3},
            "by_name": {"type": "object", "additionalProperties": {"$ref": "#/definitions/CompPoint"}},
            "maybe": {"oneOf": [{"$ref": "#/definitions/CompPoint"}, {"type": "null"}]}
        }, "required": ["ends"]});
    }
    let mut settings = settings(g, &doc, true);
    // patches rename types: keep (the API must follow), replacements too
    if g.chance(1, 2) {
        settings.struct_builder = true;
    }
    let case = Case { settings, history: history(g, &doc), ..Default::default() };
    gen::to_value(&case)
}

fn norm(s: &str, type_mod: &Option<String>) -> String {
    let mut t = s.replace(' ', "").replace(",>", ">").replace(",)", ")");
    if let Some(m) = type_mod {
        t = t.replace(&format!("{m}::"), "");
    }
    t
}

impl Property for C17 {
    fn id(&self) -> &'static str {
        "C17"
    }
    fn rule(&self) -> String {
        "documents from the faithful and wide grammars x settings (type_mod, builder, map type, derives, patches, replacements, conversions) x histories; every type yielded by iter_types() is compared with the parsed output (items, fields, serde defaults, variants, inner types, builder items, uses_* flags) and, compiled, one assertion per line: the identifier resolves inside the configured module, builder paths resolve, has_impl(X) => T: X; non-trivial = the type space has >=1 struct and >=1 enum or newtype; distinct by canonical JSON".into()
    }
    fn assumptions(&self) -> Vec<String> {
        vec!["type identifiers are compared as token strings after removing the configured module prefix".into(), "a property is 'required' exactly when its field carries no serde default".into()]
    }
    fn fuzz_gen(&self, g: &mut G) -> Option<Value> {
        Some(gen_c17_case(g))
    }
    fn generate(&self, tier: Tier, seed: u64) -> Vec<Value> {
        let mut v = gen::draw(seed, "C17", tier.pick(350, 12000), gen_c17_case);
        // every single-construct document once (each must set its uses_* flag on its own)
        for c in constructs() {
            for shape in [0usize, 2] {
                for required in [false, true] {
                    let case = Case { settings: Settings::default(), history: vec![Step::Root { doc: construct_doc(&c, required, shape) }], ..Default::default() };
                    v.push(gen::to_value(&case));
                }
            }
        }
        v
    }
    fn prepare(&self, case_v: &Value) -> Unit {
        let case = match parse_case(case_v) {
            Ok(c) => c,
            Err(e) => return invalid_unit(e),
        };
        let mut unit = Unit::default();
        let ing = ingest::ingest(&case);
        unit.outcome = ing.outcome.clone();
        unit.message = ing.message.clone();
        if ing.outcome != Outcome::Ok {
            return unit;
        }
        let mut sink = vec![];
        let Some(r) = render_checked(&ing, &mut sink) else { return unit };
        let tm = &case.settings.type_mod;
        let facts = ingest::all_facts(&ing.space);
        let mut drv = Driver::new();
        let mut asserts: Vec<(String, String)> = vec![];
        let (mut n_struct, mut n_other) = (0, 0);
        let mut vv: Vec<Violation> = vec![];
        let v = &mut vv;
        for f in &facts {
            // name() / ident() parse as types
            if syn::parse_str::<syn::Type>(&f.ident).is_err() {
                v.push(Violation::new("ident-not-a-type", format!("Type::ident() = {:?}", f.ident)));
                continue;
            }
            if syn::parse_str::<syn::Type>(&f.name).is_err() {
                v.push(Violation::new("name-not-a-type", format!("Type::name() = {:?}", f.name)));
            }
            drv.assert_lines.push(format!("crate::rt::assert_sized::<{}>();", f.ident));
            asserts.push((f.ident.clone(), "identifier resolves".into()));
            // KF-017: has_impl(Display) is true for constrained string newtypes, which
            // emit no Display; that one claim is not asserted (counted)
            let constrained_string_newtype = f.kind == "newtype"
                && f.inner.as_ref().map(|(_, i)| i.replace(' ', "") == "::std::string::String").unwrap_or(false)
                && !r.index.impls.iter().any(|i| i.self_ty == f.name && i.trait_ == "::std::convert::From<::std::string::String>");
            // a claim about a type that mentions no generated item cannot be affected by
            // compile errors elsewhere in the output
            let independent = !r.index.items.keys().any(|n| f.ident.split(|c: char| !(c.is_alphanumeric() || c == '_')).any(|seg| seg == n));
            for (flag, helper, what) in [(f.has_from_str, "assert_from_str", "FromStr"), (f.has_display, "assert_display", "Display"), (f.has_default, "assert_default", "Default")] {
                if flag && what == "Display" && constrained_string_newtype && case.extra.get("no_exclusions").is_none() {
                    *unit.counters.entry("excluded_kf017_display_claim".into()).or_default() += 1;
                    continue;
                }
                if flag {
                    drv.assert_lines.push(format!("crate::rt::{helper}::<{}>();", f.ident));
                    asserts.push((f.ident.clone(), format!("has_impl({what}){}", if independent { " [independent]" } else { "" })));
                }
            }
            if let Some(b) = &f.builder {
                drv.assert_lines.push(format!("crate::rt::assert_sized::<{}>();", b));
                asserts.push((b.clone(), "builder path resolves".into()));
            }
            let named = matches!(f.kind.as_str(), "struct" | "enum" | "newtype");
            if !named {
                continue;
            }
            let Some(item) = r.index.items.get(&f.name) else {
                v.push(Violation::new("type-without-item", format!("the API yields {} {} but the output has no such item", f.kind, f.name)));
                continue;
            };
            let has_builder_item = r.index.builder_items.contains_key(&f.name);
            if f.builder.is_some() != has_builder_item {
                v.push(Violation::new("builder-flag-mismatch", format!("{}: builder() is {:?} but builder::{} emitted = {}", f.name, f.builder, f.name, has_builder_item)));
            }
            match f.kind.as_str() {
                "struct" => {
                    n_struct += 1;
                    if item.kind != "struct" && !(item.kind == "unit_struct" && f.props.is_empty()) {
                        v.push(Violation::new("kind-mismatch", format!("{} is reported as struct but emitted as {}", f.name, item.kind)));
                        continue;
                    }
                    let api: Vec<(String, bool, String)> = f.props.iter().map(|p| (p.name.trim_start_matches("r#").to_string(), p.required, norm(&p.type_ident, tm))).collect();
                    let code: Vec<(String, bool, String)> = item.fields.iter().map(|x| (x.ident.clone().unwrap_or_default(), !x.has_default, norm(&x.ty, tm))).collect();
                    let mut a = api.clone();
                    let mut c = code.clone();
                    a.sort();
                    c.sort();
                    if a != c {
                        v.push(Violation::new("struct-properties-mismatch", format!("{}: API says {:?}, code has {:?}", f.name, api, code)));
                    }
                }
                "enum" => {
                    n_other += 1;
                    if item.kind != "enum" {
                        v.push(Violation::new("kind-mismatch", format!("{} is reported as enum but emitted as {}", f.name, item.kind)));
                        continue;
                    }
                    let api: Vec<(String, String, Vec<String>)> = f
                        .variants
                        .iter()
                        .map(|x| {
                            let payload: Vec<String> = match x.shape.as_str() {
                                "tuple" => x.tuple.iter().map(|t| norm(&t.1, tm)).collect(),
                                "struct" => x.fields.iter().map(|t| format!("{}:{}", t.0.trim_start_matches("r#"), norm(&t.2, tm))).collect(),
                                _ => vec![],
                            };
                            (x.name.clone(), x.shape.clone(), payload)
                        })
                        .collect();
                    let code: Vec<(String, String, Vec<String>)> = item
                        .variants
                        .iter()
                        .map(|x| {
                            let shape = match x.shape.as_str() {
                                "unit" => "simple",
                                s => s,
                            };
                            let payload: Vec<String> = match x.shape.as_str() {
                                // a one-element tuple variant is written V((T,)) and reported as [T]
                                "tuple" => {
                                    if x.fields.len() == 1 && x.fields[0].ty.starts_with('(') && x.fields[0].ty.ends_with(",)") {
                                        vec![norm(&x.fields[0].ty[1..x.fields[0].ty.len() - 2], tm)]
                                    } else {
                                        x.fields.iter().map(|t| norm(&t.ty, tm)).collect()
                                    }
                                }
                                "struct" => x.fields.iter().map(|t| format!("{}:{}", t.ident.clone().unwrap_or_default(), norm(&t.ty, tm))).collect(),
                                _ => vec![],
                            };
                            (x.ident.clone(), shape.to_string(), payload)
                        })
                        .collect();
                    if api != code {
                        v.push(Violation::new("enum-variants-mismatch", format!("{}: API says {:?}, code has {:?}", f.name, api, code)));
                    }
                }
                _ => {
                    n_other += 1;
                    if item.kind != "tuple_struct" || item.fields.len() != 1 {
                        v.push(Violation::new("kind-mismatch", format!("{} is reported as newtype but emitted as {} with {} fields", f.name, item.kind, item.fields.len())));
                        continue;
                    }
                    let api = f.inner.as_ref().map(|i| norm(&i.1, tm)).unwrap_or_default();
                    let code = norm(&item.fields[0].ty, tm);
                    if api != code {
                        v.push(Violation::new("newtype-inner-mismatch", format!("{}: inner() is {} but the field is {}", f.name, api, code)));
                    }
                }
            }
        }
        // items the API does not know
        for name in r.index.items.keys() {
            if !facts.iter().any(|f| &f.name == name) {
                v.push(Violation::new("item-without-type", format!("the output defines {name} but iter_types() yields no such type")));
            }
        }
        // uses_* flags
        let text = r.text.replace(' ', "");
        for (needle, flag, name) in [("::chrono::", ing.space.uses_chrono(), "uses_chrono"), ("::uuid::", ing.space.uses_uuid(), "uses_uuid"), ("::serde_json::", ing.space.uses_serde_json(), "uses_serde_json"), ("regress::", ing.space.uses_regress(), "uses_regress")] {
            // doc comments quote the schema, not paths
            let code_only: String = text.lines().filter(|l| !l.trim_start().starts_with("///")).collect::<Vec<_>>().join("\n");
            if code_only.contains(needle) && !flag {
                v.push(Violation::new("uses-flag-not-set", format!("the output mentions {needle} but {name}() is false")));
            }
        }
        unit.violations.extend(vv);
        unit.nontrivial = n_struct >= 1 && n_other >= 1;
        let (m, keys) = module(&case.settings.type_mod, r.text, &drv);
        unit.module = Some(m);
        unit.info = json!({"asserts": asserts, "drv_keys": keys});
        let mut seen = std::collections::BTreeSet::new();
        unit.violations.retain(|v| seen.insert(v.symptom.clone()));
        unit
    }
    fn judge(&self, _case: &Value, unit: &Unit, compile: &CompileStatus, _probes: &[ProbeResult], _py: &mut Py) -> Result<Judged, String> {
        let mut j = Judged::default();
        if let CompileStatus::Failed(diags) = compile {
            let keys: Vec<(usize, String)> = serde_json::from_value(unit.info["drv_keys"].clone()).unwrap_or_default();
            let asserts: Vec<(String, String)> = serde_json::from_value(unit.info["asserts"].clone()).unwrap_or_default();
            let gen_broken = diags.iter().any(|d| d.file == "gen");
            for d in diags.iter().filter(|d| d.file == "drv") {
                match keys.iter().find(|(l, _)| *l == d.line).and_then(|(_, k)| k.strip_prefix("assert:")).and_then(|i| i.parse::<usize>().ok()).and_then(|i| asserts.get(i)) {
                    Some((ty, what)) => {
                        if !gen_broken || what.contains("[independent]") {
                            j.violations.push(Violation::new(format!("api-claim-does-not-compile:{}", what.split('(').next().unwrap_or("").trim()), format!("{ty}: {what} -- {} {}", d.code, d.message)))
                        }
                    }
                    None => return Err(format!("harness driver does not compile: {} {} | {}", d.code, d.message, d.snippet)),
                }
            }
            if gen_broken {
                *j.counters.entry("not_evaluated_uncompilable".into()).or_default() += 1;
            }
        }
        if matches!(compile, CompileStatus::Ok) {
            *j.counters.entry("assertions_compiled".into()).or_default() += unit.info["asserts"].as_array().map(|a| a.len() as u64).unwrap_or(0);
        }
        let mut seen = std::collections::BTreeSet::new();
        j.violations.retain(|v| seen.insert(v.symptom.clone()));
        Ok(j)
    }
    fn in_domain(&self, case: &Value) -> bool {
        case_settings_in_domain(case)
    }
    fn predicate(&self, name: &str, case: &Value, v: &Violation) -> bool {
        super::predicates::check(name, case, v)
    }
}
