//! C18 -- the builder interface constructs exactly the valid structs.

use super::common::*;
use crate::case::*;
use crate::compile::{CompileStatus, ProbeResult};
use crate::engine::*;
use crate::gen::instance::Inst;
use crate::gen::names::*;
use crate::gen::{self, G};
use crate::ingest::{self, Outcome};
use crate::py::Py;
use serde_json::{json, Map, Value};

pub struct C18;

fn aux() -> Map<String, Value> {
    let mut m = Map::new();
    m.insert("AuxShort".into(), json!({"type": "string", "minLength": 1, "maxLength": 4}));
    // (members with braces: the text a string setter must match is the raw value)
    m.insert("AuxEnum".into(), json!({"type": "string", "enum": ["one", "two", "/users/{id}", "{}"]}));
    m.insert("AuxStruct".into(), json!({"type": "object", "properties": {"ax": {"type": "integer"}}, "required": ["ax"]}));
    // named types that carry their own default
    m.insert("AuxLabel".into(), json!({"type": "string", "maxLength": 16, "default": "unnamed"}));
    m.insert("AuxLevel".into(), json!({"type": "integer", "enum": [0, 1, 2], "default": 1}));
    // sorts before Target and holds one by an optional member (matters when Target refers to itself:
    // where the recursion is cut depends on which definition is looked at first)
    m.insert("AaHolder".into(), json!({"type": "object", "properties": {"held": {"$ref": "#/definitions/Target"}, "n": {"type": "integer"}}}));
    m
}

fn prop_schema(g: &mut G) -> (Value, bool) {
    // (schema, may carry a default)
    let r = |n: &str| json!({"$ref": format!("#/definitions/{n}")});
    let opts: Vec<Value> = vec![
        json!({"type": "integer"}),
        json!({"type": "string"}),
        json!({"type": "boolean"}),
        r("AuxShort"),
        r("AuxEnum"),
        r("AuxStruct"),
        r("AuxLabel"),
        r("AuxLevel"),
        json!({"type": "array", "items": {"type": "integer"}}),
        json!({"type": ["string", "null"]}),
        json!({"type": "integer", "format": "uint8"}),
        json!({"type": "object", "additionalProperties": {"type": "integer"}}),
        json!({"type": "array", "items": [{"type": "integer"}, {"type": "string"}], "minItems": 2, "maxItems": 2}),
        // a property that admits one value only still has to be supplied when it is required
        json!({"type": "null"}),
        // the struct itself (only ever as a non-required member)
        r("Target"),
    ];
    let s = g.pick(&opts).clone();
    let defaultable = s.get("$ref").is_none();
    (s, defaultable)
}

pub fn gen_c18_case(g: &mut G) -> Value {
    let n = 1 + g.below(5);
    let names = benign_props(g, n);
    let defs0 = aux();
    let doc0 = json!({"definitions": Value::Object(defs0.clone())});
    let mut props = Map::new();
    let mut required = vec![];
    for name in &names {
        let (mut s, defaultable) = prop_schema(g);
        let recursive = s.get("$ref") == Some(&json!("#/definitions/Target"));
        let req = !recursive && g.chance(1, 2);
        if req {
            required.push(name.clone());
        } else if defaultable && g.chance(1, 3) {
            // optional with a (valid) schema default
            let d = Inst::new(&doc0).gen(g, &s, 2);
            if !d.is_null() {
                s["default"] = d;
            }
        } else if s.get("$ref") == Some(&json!("#/definitions/AuxLabel")) && g.chance(2, 3) {
            // property-level default next to the referenced type's own default,
            // including the wrapped type's zero value
            s["default"] = json!(*g.pick(&["", "named", "unnamed"]));
        } else if s.get("$ref") == Some(&json!("#/definitions/AuxLevel")) && g.chance(2, 3) {
            s["default"] = json!(*g.pick(&[0, 1, 2]));
        }
        props.insert(name.clone(), s);
    }
    let mut defs = defs0;
    let target = json!({"type": "object", "properties": props, "required": required});
    defs.insert("Target".into(), target.clone());
    let doc = json!({"definitions": Value::Object(defs)});
    // scripts: subsets of properties with generated values
    let inst = Inst::new(&doc);
    let mut subsets: Vec<Vec<String>> = vec![];
    if names.len() <= 4 {
        for mask in 0..(1u32 << names.len()) {
            subsets.push(names.iter().enumerate().filter(|(i, _)| mask & (1 << i) != 0).map(|(_, n)| n.clone()).collect());
        }
    } else {
        subsets.push(vec![]);
        subsets.push(names.clone());
        for _ in 0..14 {
            subsets.push(g.subset(&names, 1, 2));
        }
    }
    let mut probes = vec![];
    for sub in subsets {
        let mut obj = Map::new();
        for n in &sub {
            let mut ps = doc["definitions"]["Target"]["properties"][n].clone();
            if let Some(o) = ps.as_object_mut() {
                o.remove("default");
            }
            let mut v = inst.gen(g, &ps, 2);
            if v.is_null() && ps.get("type") != Some(&json!(["string", "null"])) && ps.get("type") != Some(&json!("null")) {
                v = json!(0);
            }
            obj.insert(n.clone(), v);
        }
        probes.push(Probe { root: 0, op: "builder".into(), arg: json!({"set": Value::Object(obj.clone())}), tag: String::new() });
        probes.push(Probe { root: 0, op: "de".into(), arg: Value::Object(obj.clone()), tag: String::new() });
        probes.push(Probe { root: 0, op: "rebuild".into(), arg: Value::Object(obj), tag: String::new() });
    }
    // failing / succeeding conversions through the setter of a required newtype-typed property
    for n in &names {
        let ps = &doc["definitions"]["Target"]["properties"][n];
        let target_def = ps.get("$ref").and_then(|r| r.as_str()).unwrap_or("");
        if matches!(target_def, "#/definitions/AuxShort" | "#/definitions/AuxEnum") && doc["definitions"]["Target"]["required"].as_array().map(|r| r.contains(&json!(n))).unwrap_or(false) {
            // everything else that is required is set properly
            let mut obj = Map::new();
            for m in names.iter().filter(|m| *m != n) {
                if doc["definitions"]["Target"]["required"].as_array().map(|r| r.contains(&json!(m))).unwrap_or(false) {
                    let mut ps2 = doc["definitions"]["Target"]["properties"][m].clone();
                    if let Some(o) = ps2.as_object_mut() {
                        o.remove("default");
                    }
                    obj.insert(m.clone(), inst.gen(g, &ps2, 2));
                }
            }
            let raws: &[&str] = if target_def.ends_with("AuxShort") { &["ok", "much-too-long-for-it", ""] } else { &["one", "/users/{id}", "{}", "/users/{{id}}", "{{}}", "zz", "", "One"] };
            for raw in raws {
                probes.push(Probe { root: 0, op: "builder".into(), arg: json!({"set": Value::Object(obj.clone()), "raw": {n.clone(): raw}}), tag: "raw".into() });
            }
        }
    }
    let case = Case {
        settings: Settings { struct_builder: true, ..Default::default() },
        history: vec![Step::Root { doc }],
        roots: vec![RootSel::Ref { r: "#/definitions/Target".into() }],
        probes,
        ..Default::default()
    };
    gen::to_value(&case)
}

impl Property for C18 {
    fn id(&self) -> &'static str {
        "C18"
    }
    fn rule(&self) -> String {
        "one case = a struct with 1-5 properties (required, optional, optional with schema default, typed by scalars, containers, nullable, constrained newtypes, enums and structs), builder enabled; all subsets of properties are set through the builder when <=4 properties (16 sampled subsets otherwise) with schema-directed values, each compared with deserialising the same members, plus struct->builder->struct and, for required newtype-typed properties, setters fed raw strings that do / do not convert; non-trivial = the struct has a required and a non-required property and a subset that is neither empty nor full; distinct by canonical JSON".into()
    }
    fn assumptions(&self) -> Vec<String> {
        vec![
            "a property 'without a default' is one listed in `required`; required properties never carry a schema default in generated cases".into(),
            "the driver is emitted from the introspection API (field identifiers, type identifiers) and the parsed output (wire names)".into(),
            "an error 'names the property' when it contains the field identifier or the JSON name".into(),
        ]
    }
    fn generate(&self, tier: Tier, seed: u64) -> Vec<Value> {
        gen::draw(seed, "C18", tier.pick(200, 6000), gen_c18_case)
    }
    fn prepare(&self, case_v: &Value) -> Unit {
        let case = match parse_case(case_v) {
            Ok(c) => c,
            Err(e) => return invalid_unit(e),
        };
        let mut unit = Unit::default();
        let mut ing = ingest::ingest(&case);
        unit.outcome = ing.outcome.clone();
        unit.message = ing.message.clone();
        if ing.outcome != Outcome::Ok {
            return unit;
        }
        let ids = ingest::resolve_roots(&mut ing, &case);
        let mut sink = vec![];
        let Some(r) = render_checked(&ing, &mut sink) else { return unit };
        let Some(f) = ids.first().cloned().flatten().and_then(|id| ingest::fact_of(&ing.space, &id)) else { return unit };
        if f.kind != "struct" {
            return unit;
        }
        let Some(item) = r.index.items.get(&f.name) else { return unit };
        let mut drv = Driver::new();
        drv.arm(0, "de", "de", &f.ident);
        if f.builder.is_none() {
            unit.violations.push(Violation::new("builder-missing", format!("struct_builder is on but Type::builder() is None for {}", f.ident)));
            return unit;
        }
        // driver function for scripts
        let mut body = String::new();
        body.push_str(&format!("fn __vrf_build(arg: &::serde_json::Value) -> ::std::result::Result<::std::string::String, ::std::string::String> {{\n    let mut b = <{}>::builder();\n", f.ident));
        let mut wire: Vec<(String, String, String)> = vec![]; // (json name, field ident, type ident)
        let mut raw_capable: Vec<String> = vec![]; // properties whose setter is also fed raw strings
        for p in &f.props {
            let field = item.fields.iter().find(|fl| fl.ident.as_deref() == Some(p.name.as_str()) || fl.ident.as_deref() == p.name.strip_prefix("r#"));
            let Some(field) = field else {
                unit.violations.push(Violation::new("api-field-missing", format!("API property {} is not a field of {}", p.name, f.name)));
                return unit;
            };
            let json_name = field.wire_name().unwrap_or_default();
            wire.push((json_name.clone(), p.name.clone(), p.type_ident.clone()));
            body.push_str(&format!(
                "    if let ::std::option::Option::Some(v) = arg[\"set\"].get({jn:?}) {{ let x: {ty} = ::serde_json::from_value(v.clone()).map_err(|e| ::std::format!(\"ARG-NOT-ACCEPTED: {{}}\", e))?; b = b.{id}(x); }}\n",
                jn = json_name,
                ty = p.type_ident,
                id = p.name
            ));
            // raw strings through TryFrom<String>, when the field type offers it
            let has_try = r.index.impls.iter().any(|i| i.self_ty == p.type_ident.replace(' ', "") && i.trait_ == "::std::convert::TryFrom<::std::string::String>");
            if has_try {
                raw_capable.push(json_name.clone());
                body.push_str(&format!(
                    "    if let ::std::option::Option::Some(v) = arg[\"raw\"].get({jn:?}) {{ b = b.{id}(::std::string::String::from(v.as_str().unwrap_or(\"\"))); }}\n",
                    jn = json_name,
                    id = p.name
                ));
            }
        }
        body.push_str(&format!("    let r: ::std::result::Result<{}, _> = b.try_into();\n    match r {{ ::std::result::Result::Ok(v) => ::serde_json::to_string(&v).map_err(|e| e.to_string()), ::std::result::Result::Err(e) => ::std::result::Result::Err(::std::format!(\"BUILD-ERR: {{}}\", e)) }}\n}}\n", f.ident));
        body.push_str(&format!(
            "fn __vrf_rebuild(arg: &::serde_json::Value) -> ::std::result::Result<::std::string::String, ::std::string::String> {{\n    let x: {id} = ::serde_json::from_value(arg.clone()).map_err(|e| ::std::format!(\"ARG-NOT-ACCEPTED: {{}}\", e))?;\n    let before = ::serde_json::to_string(&x).map_err(|e| e.to_string())?;\n    let b: {b} = x.into();\n    let r: ::std::result::Result<{id}, _> = b.try_into();\n    match r {{ ::std::result::Result::Ok(y) => {{ let after = ::serde_json::to_string(&y).map_err(|e| e.to_string())?; ::std::result::Result::Ok(::std::format!(\"{{{{\\\"before\\\":{{}},\\\"after\\\":{{}}}}}}\", before, after)) }}, ::std::result::Result::Err(e) => ::std::result::Result::Err(::std::format!(\"BUILD-ERR: {{}}\", e)) }}\n}}\n",
            id = f.ident,
            b = f.builder.clone().unwrap()
        ));
        drv.extra_items = body;
        drv.arm_expr(0, "builder", "__vrf_build(arg)".into());
        drv.arm_expr(0, "rebuild", "__vrf_rebuild(arg)".into());
        unit.probes = case.probes.clone();
        let (m, keys) = module(&case.settings.type_mod, r.text, &drv);
        unit.module = Some(m);
        unit.info = json!({"wire": wire, "raw_capable": raw_capable, "drv_keys": keys, "api_required": f.props.iter().filter(|p| p.required).map(|p| p.name.clone()).collect::<Vec<_>>()});
        unit
    }
    fn in_domain(&self, case_v: &Value) -> bool {
        let Ok(case) = parse_case(case_v) else { return false };
        if case.history.len() != 1 || !case.settings.struct_builder {
            return false;
        }
        let Step::Root { doc } = &case.history[0] else { return false };
        let Some(t) = doc.pointer("/definitions/Target").and_then(|t| t.as_object()) else { return false };
        if t.get("type") != Some(&json!("object")) || !t.keys().all(|k| matches!(k.as_str(), "type" | "properties" | "required")) {
            return false;
        }
        let a = aux();
        if !a.iter().all(|(k, v)| doc.pointer(&format!("/definitions/{k}")) == Some(v)) {
            return false;
        }
        let Some(props) = t.get("properties").and_then(|p| p.as_object()) else { return false };
        let req: Vec<&str> = t.get("required").and_then(|r| r.as_array()).map(|a| a.iter().filter_map(|x| x.as_str()).collect()).unwrap_or_default();
        req.iter().all(|r| props.contains_key(*r) && props[*r].get("default").is_none())
            && props.values().all(|p| {
                let mut q = p.clone();
                if let Some(o) = q.as_object_mut() {
                    o.remove("default");
                }
                crate::gen::schema::in_faithful(&q, &["AuxShort".to_string(), "AuxEnum".to_string(), "AuxStruct".to_string(), "AuxLabel".to_string(), "AuxLevel".to_string(), "Target".to_string()])
                    && (q.get("$ref") != Some(&json!("#/definitions/Target")) || !req.contains(&props.iter().find(|(_, v)| *v == p).map(|(k, _)| k.as_str()).unwrap_or("")))
            })
    }
    fn judge(&self, case_v: &Value, unit: &Unit, compile: &CompileStatus, probes: &[ProbeResult], py: &mut Py) -> Result<Judged, String> {
        let mut j = Judged::default();
        match compile {
            CompileStatus::Ok => {}
            CompileStatus::NotCompiled => return Ok(j),
            CompileStatus::Failed(diags) => {
                // the driver only uses the documented builder surface: an error in it
                // (or inside `mod builder`) is about the builder
                let gen_rs = unit.module.as_ref().map(|m| m.gen_rs.as_str()).unwrap_or("");
                let in_builder = |d: &crate::compile::Diag| -> bool {
                    if d.file == "drv" {
                        return true;
                    }
                    let lines: Vec<&str> = gen_rs.lines().collect();
                    let mut i = d.line.min(lines.len()).saturating_sub(1);
                    loop {
                        let l = lines.get(i).copied().unwrap_or("");
                        if l.starts_with("pub mod builder") {
                            return true;
                        }
                        if (l.starts_with("pub ") || l.starts_with("impl ")) && !l.starts_with("pub mod builder") {
                            return l.contains("pub fn builder");
                        }
                        if i == 0 {
                            return false;
                        }
                        i -= 1;
                    }
                };
                match diags.iter().find(|d| in_builder(d)) {
                    Some(d) => j.violations.push(Violation::new("builder-uncompilable", format!("{}:{} {} {} | {}", d.file, d.line, d.code, d.message, d.snippet))),
                    None => *j.counters.entry("not_evaluated_uncompilable".into()).or_default() += 1,
                }
                return Ok(j);
            }
        }
        let case = parse_case(case_v)?;
        let doc = history_document(&case);
        let target = &doc["definitions"]["Target"];
        let required: Vec<String> = target["required"].as_array().map(|a| a.iter().filter_map(|x| x.as_str().map(|s| s.to_string())).collect()).unwrap_or_default();
        let nprops = target["properties"].as_object().map(|p| p.len()).unwrap_or(0);
        let mut de_by_arg: std::collections::BTreeMap<String, &ProbeResult> = Default::default();
        for (p, r) in unit.probes.iter().zip(probes) {
            if let ProbeResult::NotRun = r {
                return Err("probe not run on a compiled module".into());
            }
            if p.op == "de" {
                de_by_arg.insert(p.arg.to_string(), r);
            }
        }
        let mut nontrivial = false;
        // python: are the set values valid for their properties? (an invalid value
        // is rejected by from_value in the driver: ARG-NOT-ACCEPTED, no obligation)
        let _ = py;
        for (p, r) in unit.probes.iter().zip(probes) {
            match p.op.as_str() {
                "builder" => {
                    let set = p.arg["set"].as_object().cloned().unwrap_or_default();
                    let raw = p.arg["raw"].as_object().cloned().unwrap_or_default();
                    if let ProbeResult::Err(e) = r {
                        if e.starts_with("ARG-NOT-ACCEPTED") {
                            *j.counters.entry("script_value_not_accepted".into()).or_default() += 1;
                            continue;
                        }
                    }
                    // a raw string for a property whose type offers no TryFrom<String> was not fed to any setter
                    if raw.keys().any(|k| !unit.info["raw_capable"].as_array().map(|a| a.contains(&json!(k))).unwrap_or(false)) {
                        *j.counters.entry("raw_script_without_string_setter".into()).or_default() += 1;
                        continue;
                    }
                    *j.counters.entry("builder_scripts".into()).or_default() += 1;
                    let covered = required.iter().all(|q| set.contains_key(q) || raw.contains_key(q));
                    if !required.is_empty() && required.len() < nprops && !set.is_empty() && set.len() < nprops {
                        nontrivial = true;
                    }
                    // expected conversion outcome of raw strings: AuxShort = 1..=4 scalar values,
                    // AuxEnum = exactly the enumerated values
                    let raw_converts = |prop: &str, v: &Value| -> bool {
                        let Some(s) = v.as_str() else { return false };
                        let def = doc["definitions"]["Target"]["properties"][prop]["$ref"].as_str().unwrap_or("");
                        if def.ends_with("AuxEnum") {
                            doc["definitions"]["AuxEnum"]["enum"].as_array().map(|e| e.iter().any(|m| m.as_str() == Some(s))).unwrap_or(false)
                        } else {
                            (1..=4).contains(&s.chars().count())
                        }
                    };
                    let raw_ok = raw.iter().all(|(k, v)| raw_converts(k, v));
                    let expect_ok = covered && raw_ok;
                    match (expect_ok, r) {
                        (true, ProbeResult::Ok(built)) => {
                            if raw.is_empty() {
                                if let Some(ProbeResult::Ok(d)) = de_by_arg.get(&Value::Object(set.clone()).to_string()) {
                                    if d != built {
                                        j.violations.push(Violation::new("built-differs-from-deserialized", format!("setting {} through the builder gives {} but deserialising the same members gives {}", Value::Object(set.clone()), built, d)));
                                    }
                                }
                            }
                        }
                        (true, other) => j.violations.push(Violation::new("build-fails-although-complete", format!("script {}: every required property is set and conversions succeed, yet {}", p.arg, other.brief()))),
                        (false, ProbeResult::Err(e)) if e.starts_with("BUILD-ERR") => {
                            if covered && !raw_ok {
                                // the error must name the property
                                let (bad, _) = raw.iter().find(|(k, v)| !raw_converts(k, v)).unwrap();
                                let field = unit.info["wire"].as_array().and_then(|w| w.iter().find(|x| x[0] == json!(bad))).and_then(|x| x[1].as_str().map(|s| s.to_string())).unwrap_or_default();
                                if !e.contains(bad.as_str()) && !e.contains(&field) {
                                    j.violations.push(Violation::new("error-does-not-name-property", format!("setter for {bad} failed but the error is {e:?}")));
                                }
                            }
                        }
                        (false, ProbeResult::Ok(built)) => j.violations.push(Violation::new("build-succeeds-although-incomplete", format!("script {} (required: {:?}) builds {}", p.arg, required, built))),
                        (false, other) => j.violations.push(Violation::new("build-panics", format!("script {}: {}", p.arg, other.brief()))),
                    }
                }
                "rebuild" => match r {
                    ProbeResult::Ok(v) => {
                        *j.counters.entry("rebuilds".into()).or_default() += 1;
                        if v["before"] != v["after"] {
                            j.violations.push(Violation::new("rebuild-not-identity", format!("struct -> builder -> struct changes {} into {}", v["before"], v["after"])));
                        }
                    }
                    ProbeResult::Err(e) if e.starts_with("ARG-NOT-ACCEPTED") => {}
                    other => j.violations.push(Violation::new("rebuild-fails", format!("struct {} -> builder -> struct: {}", p.arg, other.brief()))),
                },
                _ => {}
            }
        }
        // API's required flags agree with the schema (used above as the expectation)
        j.nontrivial = Some(nontrivial);
        let mut seen = std::collections::BTreeSet::new();
        j.violations.retain(|v| seen.insert(v.symptom.clone()));
        Ok(j)
    }
    fn predicate(&self, name: &str, case: &Value, v: &Violation) -> bool {
        super::predicates::check(name, case, v)
    }
}
