//! C07 -- recursive schemas produce finitely sized types (and indirection is
//! introduced only to cut a cycle). Independent DFS over Type::details().

use super::common::*;
use crate::case::*;
use crate::compile::{CompileStatus, ProbeResult};
use crate::engine::*;
use crate::gen::{self, G};
use crate::ingest::{self, Outcome};
use crate::py::Py;
use serde_json::{json, Map, Value};
use std::collections::{BTreeMap, BTreeSet};

pub struct C07;

pub const CONTAIN: &[&str] = &["req", "opt", "nullable", "tuple", "tuple_rest", "fixedarr", "alias", "variant"];
pub const HEAP: &[&str] = &["vec", "map"];

fn def_name(i: usize) -> String {
    format!("N{}", (b'a' + i as u8) as char).to_uppercase().replace("N", "Node")
}

fn edge_schema(kind: &str, target: &str) -> Value {
    let r = json!({"$ref": target});
    match kind {
        "req" | "opt" | "alias" | "variant" => r,
        "nullable" => json!({"oneOf": [r, {"type": "null"}]}),
        "tuple" => json!({"type": "array", "items": [r, {"type": "integer"}], "minItems": 2, "maxItems": 2}),
        // the reference sits in the tail of a tuple (`additionalItems`)
        "tuple_rest" => json!({"type": "array", "items": [{"type": "string"}], "additionalItems": r, "minItems": 2, "maxItems": 2}),
        "fixedarr" => json!({"type": "array", "items": r, "minItems": 2, "maxItems": 2}),
        "vec" => json!({"type": "array", "items": r}),
        "map" => json!({"type": "object", "additionalProperties": r}),
        _ => json!({"type": "string"}),
    }
}

/// graph -> document; None when the graph is outside the domain
pub fn graph_doc(g: &Value) -> Option<Value> {
    let n = g["n"].as_u64()? as usize;
    let kinds: Vec<&str> = g["kinds"].as_array()?.iter().map(|k| k.as_str()).collect::<Option<Vec<_>>>()?;
    if kinds.len() != n || n == 0 || n > 8 {
        return None;
    }
    let mut out_edges: Vec<Vec<(usize, String)>> = vec![vec![]; n];
    for e in g["edges"].as_array()? {
        let f = e[0].as_u64()? as usize;
        let t = e[1].as_u64()? as usize;
        let k = e[2].as_str()?;
        if f >= n || t >= n || !(CONTAIN.contains(&k) || HEAP.contains(&k)) {
            return None;
        }
        out_edges[f].push((t, k.to_string()));
    }
    // optionally node 0 is the (titled) root schema of the document and is referred to as "#"
    let root = g["root"].as_bool() == Some(true);
    if root && !matches!(kinds[0], "struct" | "enum") {
        return None;
    }
    let rf = |t: usize| if root && t == 0 { "#".to_string() } else { format!("#/definitions/{}", def_name(t)) };
    let mut defs = Map::new();
    let mut root_schema = Value::Null;
    for i in 0..n {
        let s = match kinds[i] {
            "struct" => {
                let mut props = Map::new();
                let mut req = vec![];
                for (j, (t, k)) in out_edges[i].iter().enumerate() {
                    let k2 = if k == "alias" || k == "variant" { "req" } else { k.as_str() };
                    let pn = format!("p{j}");
                    props.insert(pn.clone(), edge_schema(k2, &rf(*t)));
                    if k2 != "opt" {
                        req.push(pn);
                    }
                }
                props.insert("leaf".into(), json!({"type": "integer"}));
                json!({"type": "object", "properties": props, "required": req})
            }
            "enum" => {
                let mut vs = vec![json!({"type": "string", "enum": ["unit"]})];
                for (j, (t, k)) in out_edges[i].iter().enumerate() {
                    let k2 = if k == "alias" || k == "variant" { "req" } else { k.as_str() };
                    let vn = format!("v{j}");
                    let mut p = Map::new();
                    p.insert(vn.clone(), edge_schema(if k2 == "opt" { "nullable" } else { k2 }, &rf(*t)));
                    vs.push(json!({"type": "object", "properties": p, "required": [vn], "additionalProperties": false}));
                }
                json!({"oneOf": vs})
            }
            "flat" => {
                // anyOf over object definitions that are not mutually exclusive: typify models it
                // as a struct of flattened optional members (each a by-value containment edge)
                if out_edges[i].is_empty() || out_edges[i].iter().any(|(t, _)| kinds[*t] != "struct") {
                    return None;
                }
                let mut seen = std::collections::BTreeSet::new();
                let bs: Vec<Value> = out_edges[i].iter().filter(|(t, _)| seen.insert(*t)).map(|(t, _)| json!({"$ref": rf(*t)})).collect();
                if bs.len() < 2 {
                    return None;
                }
                json!({"anyOf": bs})
            }
            "alias" => {
                // exactly one outgoing edge, which must be a plain reference
                match out_edges[i].as_slice() {
                    [] => json!({"type": "string"}),
                    [(t, _)] => json!({"$ref": rf(*t)}),
                    _ => return None,
                }
            }
            _ => return None,
        };
        if root && i == 0 {
            root_schema = s;
        } else {
            defs.insert(def_name(i), s);
        }
    }
    // cycles of bare aliases denote no schema
    let mut tmp = defs.clone();
    crate::gen::schema::break_alias_cycles(&mut tmp);
    if tmp != defs {
        return None;
    }
    if root {
        let mut d = root_schema.as_object().cloned()?;
        d.insert("title".into(), json!(def_name(0)));
        d.insert("definitions".into(), Value::Object(defs));
        return Some(Value::Object(d));
    }
    Some(json!({"definitions": Value::Object(defs)}))
}

/// Does the *schema-level* containment graph have a cycle? (computed from the
/// graph, not from typify)
fn schema_has_containment_cycle(g: &Value) -> bool {
    let n = g["n"].as_u64().unwrap_or(0) as usize;
    let mut adj: Vec<Vec<usize>> = vec![vec![]; n];
    for e in g["edges"].as_array().into_iter().flatten() {
        let (Some(f), Some(t), Some(k)) = (e[0].as_u64(), e[1].as_u64(), e[2].as_str()) else { continue };
        if !HEAP.contains(&k) {
            adj[f as usize].push(t as usize);
        }
    }
    // DFS colouring
    fn visit(u: usize, adj: &Vec<Vec<usize>>, col: &mut Vec<u8>) -> bool {
        col[u] = 1;
        for &v in &adj[u] {
            if col[v] == 1 || (col[v] == 0 && visit(v, adj, col)) {
                return true;
            }
        }
        col[u] = 2;
        false
    }
    let mut col = vec![0u8; n];
    (0..n).any(|u| col[u] == 0 && visit(u, &adj, &mut col))
}

fn canonical_edges(mut e: Vec<(usize, usize, &str)>) -> Value {
    e.sort();
    json!(e.iter().map(|(f, t, k)| json!([f, t, k])).collect::<Vec<_>>())
}

fn graph(kinds: &[&str], edges: Vec<(usize, usize, &str)>, compile: bool) -> Value {
    json!({"n": kinds.len(), "kinds": kinds, "edges": canonical_edges(edges), "compile": compile})
}

fn random_graph(g: &mut G) -> Value {
    let n = 1 + g.below(8);
    let mut kinds: Vec<&str> = (0..n).map(|_| *g.pick(&["struct", "struct", "struct", "enum", "alias"])).collect();
    // sometimes one node is an anyOf over two or three struct nodes (flattened members)
    let structs: Vec<usize> = (0..n).filter(|i| kinds[*i] == "struct").collect();
    let mut flat_edges: Vec<(usize, usize, &str)> = vec![];
    if structs.len() >= 3 && g.chance(1, 3) {
        let f = structs[0];
        kinds[f] = "flat";
        for t in structs.iter().skip(1).take(2 + g.below(2)) {
            flat_edges.push((f, *t, "variant"));
        }
    }
    let m = g.below(17);
    let mut edges = vec![];
    let mut alias_used = vec![false; n];
    edges.extend(flat_edges.iter().cloned());
    for _ in 0..m {
        let f = g.below(n);
        let t = g.below(n);
        if kinds[f] == "flat" {
            continue;
        }
        if kinds[f] == "alias" {
            if alias_used[f] {
                continue;
            }
            alias_used[f] = true;
            edges.push((f, t, "alias"));
            continue;
        }
        let k = if g.chance(3, 4) { *g.pick(&["req", "opt", "nullable", "tuple", "tuple_rest", "fixedarr"]) } else { *g.pick(HEAP) };
        let k = if kinds[f] == "enum" && k == "req" { "variant" } else { k };
        edges.push((f, t, k));
    }
    let mut gv = graph(&kinds, edges, false);
    if matches!(kinds[0], "struct" | "enum") && g.chance(1, 4) {
        gv["root"] = json!(true);
    }
    gv
}

impl Property for C07 {
    fn id(&self) -> &'static str {
        "C07"
    }
    fn rule(&self) -> String {
        "directed multigraphs over n definitions (node kinds struct / newtype alias / externally tagged enum / anyOf over non-exclusive objects (flattened members); edge kinds required, optional, nullable, tuple element, tuple tail (additionalItems), fixed-array element, alias, variant payload, plus the heap kinds array items and map value): exhaustive for n=1 (multisets of up to 3 self-loops) and n=2 (at most one edge per ordered pair, 10 edge kinds, all node kinds), a reduced alphabet for n=3 in the thorough tier, random for n<=8 with 0-16 edges; graphs made of bare alias cycles are outside the domain; non-trivial = the schema-level containment graph has a cycle; distinct by canonical graph".into()
    }
    fn assumptions(&self) -> Vec<String> {
        vec![
            "the containment graph of the generated types is read through Type::details(); Box, Vec, Set and Map edges are heap indirections".into(),
            "the schema-level containment graph is computed from the generated graph, not from typify".into(),
        ]
    }
    fn chunk(&self) -> usize {
        40000
    }
    fn fuzz_gen(&self, g: &mut G) -> Option<Value> {
        let mut c = random_graph(g);
        if g.chance(1, 3) {
            c["prebatch"] = json!(true);
        }
        graph_doc(&c)?;
        Some(c)
    }
    fn generate(&self, tier: Tier, seed: u64) -> Vec<Value> {
        let mut out = vec![];
        let kinds3 = ["struct", "enum", "alias"];
        let all: Vec<&str> = CONTAIN.iter().chain(HEAP.iter()).cloned().collect();
        // n = 1: multisets of up to 3 self loops
        for k in ["struct", "enum"] {
            let ek: Vec<&str> = all.iter().cloned().filter(|e| *e != "alias" && !(k == "struct" && *e == "variant") && !(k == "enum" && *e == "req")).collect();
            out.push(graph(&[k], vec![], false));
            for a in 0..ek.len() {
                out.push(graph(&[k], vec![(0, 0, ek[a])], true));
                for b in a..ek.len() {
                    out.push(graph(&[k], vec![(0, 0, ek[a]), (0, 0, ek[b])], false));
                    for c in b..ek.len() {
                        out.push(graph(&[k], vec![(0, 0, ek[a]), (0, 0, ek[b]), (0, 0, ek[c])], false));
                    }
                }
            }
        }
        // n = 2: at most one edge per ordered pair
        let mut compiled = 0;
        for k0 in kinds3 {
            for k1 in kinds3 {
                let kinds = [k0, k1];
                let opts = |from: usize| -> Vec<Option<&str>> {
                    let mut v: Vec<Option<&str>> = vec![None];
                    match kinds[from] {
                        "alias" => v.push(Some("alias")),
                        "enum" => v.extend(all.iter().filter(|e| **e != "alias" && **e != "req").map(|e| Some(*e))),
                        _ => v.extend(all.iter().filter(|e| **e != "alias" && **e != "variant").map(|e| Some(*e))),
                    }
                    v
                };
                for e00 in opts(0) {
                    for e01 in opts(0) {
                        if kinds[0] == "alias" && e00.is_some() && e01.is_some() {
                            continue;
                        }
                        for e10 in opts(1) {
                            for e11 in opts(1) {
                                if kinds[1] == "alias" && e10.is_some() && e11.is_some() {
                                    continue;
                                }
                                let mut edges = vec![];
                                if let Some(k) = e00 {
                                    edges.push((0, 0, k));
                                }
                                if let Some(k) = e01 {
                                    edges.push((0, 1, k));
                                }
                                if let Some(k) = e10 {
                                    edges.push((1, 0, k));
                                }
                                if let Some(k) = e11 {
                                    edges.push((1, 1, k));
                                }
                                // a deterministic sample is also compiled
                                let c = (out.len() % 97 == 0) && compiled < tier.pick(60, 400);
                                if c {
                                    compiled += 1;
                                }
                                out.push(graph(&kinds, edges, c));
                            }
                        }
                    }
                }
            }
        }
        // anyOf (flattened) node over two structs, each of which may point back
        for back0 in [None, Some("req"), Some("opt"), Some("nullable"), Some("vec")] {
            for back1 in [None, Some("req"), Some("opt"), Some("tuple")] {
                let mut edges = vec![(0usize, 1usize, "variant"), (0, 2, "variant")];
                if let Some(k) = back0 {
                    edges.push((1, 0, k));
                }
                if let Some(k) = back1 {
                    edges.push((2, 0, k));
                }
                out.push(graph(&["flat", "struct", "struct"], edges, back0 == Some("opt")));
            }
        }
        if tier == Tier::Thorough {
            // n = 3 over a reduced alphabet, all structs
            let alpha = [None, Some("req"), Some("opt"), Some("vec")];
            let mut idx = [0usize; 9];
            loop {
                let mut edges = vec![];
                for (p, a) in idx.iter().enumerate() {
                    if let Some(k) = alpha[*a] {
                        edges.push((p / 3, p % 3, k));
                    }
                }
                out.push(graph(&["struct", "struct", "struct"], edges, false));
                let mut p = 0;
                loop {
                    idx[p] += 1;
                    if idx[p] < alpha.len() {
                        break;
                    }
                    idx[p] = 0;
                    p += 1;
                    if p == 9 {
                        break;
                    }
                }
                if p == 9 {
                    break;
                }
            }
        }
        let mut rnd = gen::draw(seed, "C07", tier.pick(5000, 150000), random_graph);
        for (i, r) in rnd.iter_mut().enumerate() {
            if i < tier.pick(40, 2000) {
                r["compile"] = json!(true);
            }
            if i % 3 == 1 {
                r["prebatch"] = json!(true);
            }
        }
        // every exhaustive graph also after an unrelated batch
        let with_pre: Vec<Value> = out
            .iter()
            .map(|gv| {
                let mut x = gv.clone();
                x["prebatch"] = json!(true);
                x["compile"] = json!(false);
                x
            })
            .collect();
        out.extend(with_pre);
        // every exhaustive graph whose first node can be a root schema also in rooted form
        let rooted: Vec<Value> = out
            .iter()
            .filter(|gv| matches!(gv["kinds"][0].as_str(), Some("struct") | Some("enum")) && gv["prebatch"].as_bool() != Some(true))
            .map(|gv| {
                let mut x = gv.clone();
                x["root"] = json!(true);
                x["compile"] = json!(false);
                x
            })
            .collect();
        out.extend(rooted);
        out.extend(rnd);
        // combinations that denote no document (an alias with several targets, a flattened
        // union over non-objects, bare alias cycles) are outside the domain
        let before = out.len();
        out.retain(|gv| graph_doc(gv).is_some());
        gen::excluded("graph-denotes-no-document", (before - out.len()) as u64);
        out
    }
    fn exhaustive(&self, _tier: Tier) -> bool {
        false
    }
    fn prepare(&self, gv: &Value) -> Unit {
        let Some(doc) = graph_doc(gv) else { return invalid_unit("not a C07 graph".into()) };
        let mut unit = Unit::default();
        let cyc = schema_has_containment_cycle(gv);
        unit.nontrivial = cyc;
        if cyc {
            unit.classes.push("containment-cycle".into());
        }
        let names = crate::gen::schema::def_names(&doc);
        // optionally an unrelated batch is added first (type ids then do not start at 1)
        let mut history = vec![];
        if gv["prebatch"].as_bool() == Some(true) {
            history.push(Step::Refs { defs: json!({"Unrelated": {"type": "object", "properties": {"u": {"type": "string"}}}, "UnrelatedToo": {"type": "string", "enum": ["p", "q"]}}) });
        }
        history.push(Step::Root { doc });
        let mut roots: Vec<RootSel> = names.iter().map(|n| RootSel::Ref { r: format!("#/definitions/{n}") }).collect();
        if gv["root"].as_bool() == Some(true) {
            roots.push(RootSel::Step { step: history.len() - 1 });
        }
        // (compiled graphs alternate between plain output and output with struct builders)
        let settings = Settings { struct_builder: gv["compile"].as_bool() == Some(true) && gv["edges"].as_array().map(|e| e.len() % 2 == 1).unwrap_or(false), ..Default::default() };
        let case = Case { settings, history, roots, ..Default::default() };
        let mut ing = ingest::ingest(&case);
        unit.outcome = ing.outcome.clone();
        unit.message = ing.message.clone();
        if ing.outcome != Outcome::Ok {
            return unit;
        }
        let roots = ingest::resolve_roots(&mut ing, &case);
        // independent DFS over by-value edges
        let mut value_adj: BTreeMap<String, Vec<String>> = BTreeMap::new();
        let mut seen: BTreeSet<String> = BTreeSet::new();
        let mut stack: Vec<typify_impl::TypeId> = roots.iter().flatten().cloned().collect();
        let mut has_box = false;
        let mut label: BTreeMap<String, String> = BTreeMap::new();
        while let Some(id) = stack.pop() {
            let key = ingest::tid(&id);
            if !seen.insert(key.clone()) {
                continue;
            }
            let Ok(ty) = ing.space.get_type(&id) else {
                unit.violations.push(Violation::new("dangling-type-id", format!("{key} does not resolve")));
                continue;
            };
            label.insert(key.clone(), ingest::ts(ty.ident()));
            if matches!(ty.details(), typify_impl::TypeDetails::Box(_)) {
                has_box = true;
            }
            for (c, how) in ingest::children_of(&ty) {
                if how == "value" {
                    value_adj.entry(key.clone()).or_default().push(ingest::tid(&c));
                }
                stack.push(c);
            }
        }
        // cycle detection
        fn visit(u: &str, adj: &BTreeMap<String, Vec<String>>, col: &mut BTreeMap<String, u8>, path: &mut Vec<String>) -> bool {
            col.insert(u.to_string(), 1);
            path.push(u.to_string());
            for v in adj.get(u).into_iter().flatten() {
                match col.get(v.as_str()).copied().unwrap_or(0) {
                    1 => {
                        path.push(v.clone());
                        return true;
                    }
                    0 => {
                        if visit(v, adj, col, path) {
                            return true;
                        }
                    }
                    _ => {}
                }
            }
            path.pop();
            col.insert(u.to_string(), 2);
            false
        }
        let mut col: BTreeMap<String, u8> = BTreeMap::new();
        let keys: Vec<String> = seen.iter().cloned().collect();
        for k in keys {
            if col.get(&k).copied().unwrap_or(0) == 0 {
                let mut path = vec![];
                if visit(&k, &value_adj, &mut col, &mut path) {
                    let names: Vec<String> = path.iter().map(|p| label.get(p).cloned().unwrap_or(p.clone())).collect();
                    unit.violations.push(Violation::new("containment-cycle-without-indirection", format!("by-value cycle: {}", names.join(" -> "))));
                    break;
                }
            }
        }
        if !cyc && has_box {
            unit.violations.push(Violation::new("box-without-cycle", "the schema has no containment cycle, yet a Box is reachable from its definitions".to_string()));
        }
        if has_box {
            unit.classes.push("boxed".into());
        }
        if gv["compile"].as_bool() == Some(true) {
            let mut sink = vec![];
            if let Some(r) = render_checked(&ing, &mut sink) {
                let drv = Driver::new();
                let (m, _) = module(&None, r.text, &drv);
                unit.module = Some(m);
            }
        }
        unit
    }
    fn judge(&self, _case: &Value, _unit: &Unit, compile: &CompileStatus, _probes: &[ProbeResult], _py: &mut Py) -> Result<Judged, String> {
        let mut j = Judged::default();
        if let CompileStatus::Failed(diags) = compile {
            if diags.iter().any(|d| d.file != "gen") {
                return Err(format!("harness driver does not compile: {}", diags[0].message));
            }
            if let Some(d) = diags.iter().find(|d| d.code == "E0072" || d.code == "E0391") {
                j.violations.push(Violation::new("rustc-infinite-size", format!("{} {} | {}", d.code, d.message, d.snippet)));
            } else if let Some(d) = diags.iter().find(|d| d.file == "gen") {
                // "... have finite size and compile": the graphs use nothing but references between
                // plain structs / enums / aliases, so any other error is about the recursion as well
                *j.counters.entry("uncompilable_for_other_reasons".into()).or_default() += 1;
                j.violations.push(Violation::new("recursive-types-do-not-compile", format!("{} {} | {}", d.code, d.message, d.snippet)));
            }
        }
        if matches!(compile, CompileStatus::Ok) {
            *j.counters.entry("compiled_ok".into()).or_default() += 1;
        }
        Ok(j)
    }
    fn in_domain(&self, case: &Value) -> bool {
        graph_doc(case).is_some()
    }
    fn distinct_key(&self, case: &Value) -> String {
        let mut c = case.clone();
        if let Some(o) = c.as_object_mut() {
            o.remove("compile");
        }
        c.to_string()
    }
    fn predicate(&self, name: &str, case: &Value, v: &Violation) -> bool {
        super::predicates::check(name, case, v)
    }
}
