//! C08 -- arbitrary JSON names map to valid identifiers and exact wire names.

use super::common::*;
use crate::case::*;
use crate::compile::{CompileStatus, ProbeResult};
use crate::engine::*;
use crate::py::Py;
use crate::gen::names::*;
use crate::gen::{self, G};
use crate::ingest::{self, Outcome};
use serde_json::{json, Map, Value};

pub struct C08;

fn case_of(usage: &str, names: &[String]) -> Value {
    json!({"use": usage, "names": names})
}

const PTYPES: u64 = 12;

fn prop_case(names: &[String], ptype: u64) -> Value {
    json!({"use": "prop", "names": names, "ptype": ptype})
}

pub fn doc_of(c: &Value) -> Option<(Value, Vec<String>)> {
    let usage = c["use"].as_str()?;
    let names: Vec<String> = c["names"].as_array()?.iter().map(|n| n.as_str().map(|s| s.to_string())).collect::<Option<Vec<_>>>()?;
    if names.is_empty() || names.len() > 3 {
        return None;
    }
    let mut uniq = names.clone();
    uniq.sort();
    uniq.dedup();
    if uniq.len() != names.len() {
        return None; // JSON object keys / enum values are distinct
    }
    // a union needs two alternatives: a lone name gets a benign companion
    let mut names = names;
    if matches!(usage, "variant" | "adj" | "tag") && names.len() == 1 && names[0] != "zz_other" {
        names.push("zz_other".to_string());
    }
    let doc = match usage {
        "prop" => {
            // the property's schema and requiredness vary with `ptype`: every serde
            // attribute path of struct fields is exercised with every name
            let ptype = c["ptype"].as_u64().unwrap_or(0);
            let (schema, required): (Value, bool) = match ptype {
                0 => (json!({"type": "integer"}), true),
                1 => (json!({"type": "string"}), false),
                2 => (json!({"type": "object", "additionalProperties": {"type": "string"}}), false),
                3 => (json!({"type": "array", "items": {"type": "integer"}}), false),
                4 => (json!({"type": ["string", "null"]}), true),
                5 => (json!({"type": "object"}), false),
                6 => (json!({"type": "boolean", "default": true}), false),
                7 => (json!({"type": "object", "properties": {"inner": {"type": "integer"}}}), false),
                8 => (json!({"type": "array", "items": {"type": "string"}, "uniqueItems": true}), false),
                9 => (json!({"type": "string", "default": "dflt"}), false),
                // 10: named in `required` only, declared nowhere
                10 => (Value::Null, true),
                // 11: next to typed additionalProperties (the struct gets a synthetic flattened member)
                11 => (json!({"type": "integer"}), true),
                _ => return None,
            };
            let mut props = Map::new();
            let mut req = vec![];
            for (i, n) in names.iter().enumerate() {
                if i == 0 {
                    if !schema.is_null() {
                        props.insert(n.clone(), schema.clone());
                    }
                    if required {
                        req.push(n.clone());
                    }
                } else {
                    props.insert(n.clone(), if i % 2 == 0 { json!({"type": "integer"}) } else { json!({"type": "string"}) });
                }
            }
            if ptype == 11 {
                json!({"definitions": {"Holder": {"type": "object", "properties": props, "required": req, "additionalProperties": {"type": "string"}}}})
            } else {
                json!({"definitions": {"Holder": {"type": "object", "properties": props, "required": req}}})
            }
        }
        "enum" => json!({"definitions": {"Holder": {"type": "string", "enum": names}}}),
        "def" => {
            let mut defs = Map::new();
            for (i, n) in names.iter().enumerate() {
                defs.insert(n.clone(), json!({"type": "object", "properties": {format!("field{i}"): {"type": "integer"}}, "required": [format!("field{i}")]}));
            }
            json!({"definitions": defs})
        }
        "variant" => {
            // externally tagged: the name is the single property key; the payload shape of the
            // first variant varies with `ptype` (every variant-emission path sees every name)
            let vs: Vec<Value> = names
                .iter()
                .enumerate()
                .map(|(i, n)| {
                    let mut p = Map::new();
                    p.insert(n.clone(), if i == 0 { payload_schema(c["ptype"].as_u64().unwrap_or(0)) } else if i % 2 == 0 { json!({"type": "integer"}) } else { json!({"type": "string"}) });
                    json!({"type": "object", "properties": p, "required": [n], "additionalProperties": false})
                })
                .collect();
            if c["ptype"].as_u64().unwrap_or(0) >= VTYPES {
                return None;
            }
            json!({"definitions": {"Holder": {"oneOf": vs}}})
        }
        "adj" => {
            // adjacently tagged: the name is the constant of the tag property
            let vs: Vec<Value> = names
                .iter()
                .enumerate()
                .map(|(i, n)| {
                    let content = if i == 0 { payload_schema(c["ptype"].as_u64().unwrap_or(0)) } else if i % 2 == 0 { json!({"type": "integer"}) } else { json!({"type": "string"}) };
                    json!({"type": "object", "properties": {"tag": {"type": "string", "enum": [n]}, "content": content}, "required": ["tag", "content"]})
                })
                .collect();
            if c["ptype"].as_u64().unwrap_or(0) >= VTYPES {
                return None;
            }
            json!({"definitions": {"Holder": {"oneOf": vs}}})
        }
        "tag" => {
            // internally tagged: the name is the constant of the tag property
            let vs: Vec<Value> = names
                .iter()
                .enumerate()
                .map(|(i, n)| {
                    let mut p = Map::new();
                    p.insert("kind".into(), json!({"type": "string", "enum": [n]}));
                    p.insert(format!("f{i}"), json!({"type": "integer"}));
                    json!({"type": "object", "properties": p, "required": ["kind"]})
                })
                .collect();
            json!({"definitions": {"Holder": {"oneOf": vs}}})
        }
        _ => return None,
    };
    Some((doc, names))
}

pub const VTYPES: u64 = 6;

/// payload of a union variant: scalar, one-element tuple, pair, struct, array, string
fn payload_schema(k: u64) -> Value {
    match k {
        1 => json!({"type": "array", "items": [{"type": "number"}], "minItems": 1, "maxItems": 1}),
        2 => json!({"type": "array", "items": [{"type": "integer"}, {"type": "string"}], "minItems": 2, "maxItems": 2}),
        3 => json!({"type": "object", "properties": {"x": {"type": "integer"}}, "required": ["x"]}),
        4 => json!({"type": "array", "items": {"type": "integer"}}),
        5 => json!({"type": "string"}),
        _ => json!({"type": "integer"}),
    }
}

fn payload_value(k: u64) -> Value {
    match k {
        1 => json!([1.5]),
        2 => json!([3, "s"]),
        3 => json!({"x": 4}),
        4 => json!([1, 2]),
        5 => json!("str"),
        _ => json!(5),
    }
}

fn is_plain_ident(s: &str, pascal: bool) -> bool {
    sanitize_like(s, pascal) == s
}

fn gen_single(g: &mut G) -> Value {
    let u = *g.pick(&["prop", "enum", "def", "variant", "variant"]);
    let n = if g.chance(1, 2) { odd_name(g) } else { odd_string(g, 24) };
    if u == "prop" {
        prop_case(&[n], g.u64() % PTYPES)
    } else if u == "variant" {
        variant_case(u, &[n], g.u64() % VTYPES)
    } else {
        case_of(u, &[n])
    }
}

fn variant_case(u: &str, names: &[String], ptype: u64) -> Value {
    json!({"use": u, "names": names, "ptype": ptype})
}

fn gen_group(g: &mut G) -> Value {
    let u = *g.pick(&["prop", "enum", "def", "variant", "adj", "tag"]);
    let (a, b) = if g.chance(2, 3) { colliding_pair(g) } else { (odd_name(g), odd_name(g)) };
    // colliding names next to each other, or separated by an unrelated name
    let names = if a == b {
        vec![a]
    } else if g.chance(1, 3) {
        let filler = g.pick(&["go", "middle", "zz9"]).to_string();
        if filler == a || filler == b {
            vec![a, b]
        } else {
            vec![a, filler, b]
        }
    } else {
        vec![a, b]
    };
    if u == "prop" {
        prop_case(&names, g.u64() % PTYPES)
    } else if u == "variant" || u == "adj" {
        variant_case(u, &names, g.u64() % VTYPES)
    } else {
        case_of(u, &names)
    }
}

impl Property for C08 {
    fn id(&self) -> &'static str {
        "C08"
    }
    fn rule(&self) -> String {
        "names used as property names of a struct, values of a string enum, definition keys and variant keys of an externally tagged union, alone and in pairs: exhaustive strings over a 12-symbol representative alphabet (length<=3 quick, <=4 thorough), the complete Rust keyword list in several casings, type-ish reserved names, random Unicode strings, and colliding pairs built by construction; non-trivial = some name is not already a legal snake/Pascal identifier, or the case is a pair; distinct by (use, names)".into()
    }
    fn assumptions(&self) -> Vec<String> {
        vec![
            "an ingestion error or typify's own uniqueness panic counts as 'fails with an error'".into(),
            "the effective serde name of a field/variant is its explicit rename or else its identifier (raw prefix stripped)".into(),
        ]
    }
    fn chunk(&self) -> usize {
        50000
    }
    fn fuzz_gen(&self, g: &mut G) -> Option<Value> {
        Some(if g.chance(1, 3) { gen_single(g) } else { gen_group(g) })
    }
    fn generate(&self, tier: Tier, seed: u64) -> Vec<Value> {
        let mut names: Vec<String> = exhaustive(tier.pick(3, 4));
        if tier == Tier::Quick {
            // length-3 strings: a deterministic third of them
            let (short, long): (Vec<String>, Vec<String>) = names.into_iter().partition(|s| s.chars().count() < 3);
            names = short;
            names.extend(long.into_iter().step_by(3));
        }
        for k in KEYWORDS.iter().chain(RESERVED_TYPEISH.iter()) {
            names.push(k.to_string());
            names.push(heck_pascal(k));
            names.push(k.to_uppercase());
            names.push(format!("{k}_"));
            names.push(format!("_{k}"));
            names.push(format!("r#{k}"));
        }
        // spellings of names typify itself introduces (`extra`, `Variant0`, `Inner`, ...)
        for k in ["extra", "Extra", "EXTRA", "extra_", "_extra", "extra-", " extra", "Variant0", "variant0", "Inner", "inner", "subtype_0", "value", "Value"] {
            names.push(k.to_string());
        }
        names.sort();
        names.dedup();
        let uses = ["prop", "enum", "def", "variant"];
        let mut out = vec![];
        for n in &names {
            for u in uses {
                if u == "prop" {
                    for t in 0..PTYPES {
                        out.push(prop_case(&[n.clone()], t));
                    }
                } else if u == "variant" {
                    for t in 0..VTYPES {
                        out.push(variant_case(u, &[n.clone()], t));
                    }
                } else {
                    out.push(case_of(u, &[n.clone()]));
                }
            }
        }
        out.extend(gen::draw(seed, "C08-rand", tier.pick(3000, 150000), gen_single));
        out.extend(gen::draw(seed, "C08-pairs", tier.pick(2500, 60000), gen_group));
        // dynamic half: a deterministic sample is compiled and an instance keyed by the
        // original names is round-tripped through the generated type
        let every = (out.len() / tier.pick(160, 3000)).max(1);
        for (i, c) in out.iter_mut().enumerate() {
            if i % every == 0 {
                c["compile"] = json!(true);
            }
        }
        out
    }
    fn prepare(&self, c: &Value) -> Unit {
        let Some((doc, names)) = doc_of(c) else { return invalid_unit("not a C08 case".into()) };
        let usage = c["use"].as_str().unwrap_or("");
        let mut unit = Unit::default();
        let pascal = usage != "prop";
        unit.nontrivial = names.len() > 1 || names.iter().any(|n| !is_plain_ident(n, pascal));
        unit.classes.push(format!("use:{usage}"));
        let case = Case { history: vec![Step::Root { doc }], ..Default::default() };
        let ing = ingest::ingest(&case);
        unit.outcome = ing.outcome.clone();
        unit.message = ing.message.clone();
        if ing.outcome != Outcome::Ok {
            // fails with an error: allowed
            return unit;
        }
        let mut sink = vec![];
        let Some(r) = render_checked(&ing, &mut sink) else {
            unit.violations.extend(sink);
            return unit;
        };
        unit.violations.extend(sink);
        if !r.index.duplicates.is_empty() {
            unit.violations.push(Violation::new("duplicate-identifier", format!("names {:?} as {usage}: duplicates in one scope: {:?}", names, r.index.duplicates)));
            return unit;
        }
        let mut want: Vec<String> = names.clone();
        want.sort();
        match usage {
            "prop" => {
                let Some(item) = r.index.items.get("Holder") else {
                    unit.violations.push(Violation::new("item-missing", "no item Holder".to_string()));
                    return unit;
                };
                // (a flattened member stands for the undeclared properties and has no name on the wire)
                let mut got: Vec<String> = item.fields.iter().filter(|f| !f.flatten).filter_map(|f| f.wire_name()).collect();
                got.sort();
                if got != want {
                    unit.violations.push(Violation::new("wire-name-mismatch", format!("properties {:?} are bound to serde names {:?}", want, got)));
                }
            }
            "enum" | "variant" | "adj" | "tag" => {
                let Some(item) = r.index.items.get("Holder") else {
                    unit.violations.push(Violation::new("item-missing", "no item Holder".to_string()));
                    return unit;
                };
                if item.kind != "enum" {
                    // a single value may legitimately become something else; only check enums
                    unit.counters.insert("holder_not_enum".into(), 1);
                    return unit;
                }
                if item.serde.iter().any(|s| s.starts_with("rename_all")) {
                    unit.counters.insert("rename_all_present".into(), 1);
                    return unit;
                }
                let mut got: Vec<String> = item.variants.iter().map(|v| v.rename.clone().unwrap_or(v.ident.clone())).collect();
                got.sort();
                if got != want {
                    unit.violations.push(Violation::new("wire-name-mismatch", format!("{usage} names {:?} are bound to serde names {:?}", want, got)));
                }
            }
            "def" => {
                // every definition is an item of its own (located by its unique field)
                let mut item_names = vec![];
                for (i, n) in names.iter().enumerate() {
                    let field = format!("field{i}");
                    let holders: Vec<&String> = r.index.items.iter().filter(|(_, it)| it.fields.iter().any(|f| f.wire_name().as_deref() == Some(field.as_str()))).map(|(k, _)| k).collect();
                    match holders.as_slice() {
                        [one] => item_names.push((*one).clone()),
                        [] => unit.violations.push(Violation::new("definition-without-item", format!("definition {:?} (of {:?}) has no item in the output", n, names))),
                        _ => unit.violations.push(Violation::new("definitions-share-item", format!("definition {:?} appears in several items {:?}", n, holders))),
                    }
                }
                let mut d = item_names.clone();
                d.sort();
                d.dedup();
                if d.len() != item_names.len() {
                    unit.violations.push(Violation::new("definitions-share-item", format!("definitions {:?} resolve to items {:?}", names, item_names)));
                }
            }
            _ => {}
        }
        if c["compile"].as_bool() == Some(true) && unit.violations.is_empty() && r.index.items.contains_key("Holder") && usage != "def" {
            let mut drv = Driver::new();
            drv.arm(0, "rt", "rt", "Holder");
            // an instance keyed by the original names
            let ptype = c["ptype"].as_u64().unwrap_or(0);
            let inst: Option<Value> = match usage {
                "prop" => {
                    let first: Value = match ptype {
                        0 => json!(7),
                        1 => json!("s"),
                        2 => json!({"k": "v"}),
                        3 => json!([1, 2]),
                        4 => json!("n"),
                        5 => json!({"k": 1}),
                        6 => json!(false),
                        7 => json!({"inner": 3}),
                        8 => json!(["u"]),
                        11 => json!(7),
                        _ => json!("other"),
                    };
                    let mut m = Map::new();
                    for (i, n) in names.iter().enumerate() {
                        m.insert(n.clone(), if i == 0 { first.clone() } else if i % 2 == 0 { json!(1) } else { json!("x") });
                    }
                    Some(Value::Object(m))
                }
                "enum" => Some(json!(names[names.len() - 1])),
                "variant" => {
                    let i = if c["ptype"].as_u64().unwrap_or(0) > 0 { 0 } else { names.len() - 1 };
                    let mut m = Map::new();
                    m.insert(names[i].clone(), if i == 0 { payload_value(c["ptype"].as_u64().unwrap_or(0)) } else if i % 2 == 0 { json!(5) } else { json!("x") });
                    Some(Value::Object(m))
                }
                "adj" => Some(json!({"tag": names[0], "content": payload_value(c["ptype"].as_u64().unwrap_or(0))})),
                "tag" => Some(json!({"kind": names[names.len() - 1], format!("f{}", names.len() - 1): 9})),
                _ => None,
            };
            if let Some(inst) = inst {
                unit.probes.push(Probe { root: 0, op: "rt".into(), arg: inst, tag: String::new() });
                let (m, _) = module(&None, r.text, &drv);
                unit.module = Some(m);
            }
        }
        unit
    }
    fn judge(&self, _c: &Value, unit: &Unit, compile: &CompileStatus, probes: &[ProbeResult], _py: &mut Py) -> Result<Judged, String> {
        let mut j = Judged::default();
        if unit.module.is_none() {
            return Ok(j);
        }
        match compile {
            CompileStatus::Ok => {}
            CompileStatus::NotCompiled => return Ok(j),
            CompileStatus::Failed(diags) => {
                if diags.iter().all(|d| d.file != "gen") {
                    return Err(format!("harness driver does not compile: {}", diags[0].message));
                }
                // identifiers that syn accepts but rustc does not are this property's subject
                let d = diags.iter().find(|d| d.file == "gen").unwrap();
                j.violations.push(Violation::new("generated-identifiers-do-not-compile", format!("{} {} | {}", d.code, d.message, d.snippet)));
                return Ok(j);
            }
        }
        *j.counters.entry("compiled_roundtrips".into()).or_default() += 1;
        for (p, r) in unit.probes.iter().zip(probes) {
            match r {
                ProbeResult::Ok(out) => {
                    if out["first"] != p.arg || out["second"] != p.arg {
                        j.violations.push(Violation::new("wire-name-roundtrip", format!("instance {} keyed by the original names comes back as {}", p.arg, out["first"])));
                    }
                }
                ProbeResult::NotRun => return Err("probe not run on a compiled module".into()),
                other => j.violations.push(Violation::new("wire-name-roundtrip", format!("instance {} keyed by the original names is not accepted: {}", p.arg, other.brief()))),
            }
        }
        Ok(j)
    }
    fn distinct_key(&self, case: &Value) -> String {
        let mut c = case.clone();
        if let Some(o) = c.as_object_mut() {
            o.remove("compile");
        }
        c.to_string()
    }
    fn in_domain(&self, case: &Value) -> bool {
        doc_of(case).is_some()
    }
    fn predicate(&self, name: &str, case: &Value, v: &Violation) -> bool {
        super::predicates::check(name, case, v)
    }
}
