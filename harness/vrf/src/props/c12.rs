//! C12 -- generated output is a deterministic function of settings and schema.

use super::common::*;
use crate::case::*;
use crate::engine::*;
use crate::gen::{self, schema as gs, G};
use crate::ingest::{self, Outcome};
use serde_json::{json, Value};
use std::io::Write;
use std::process::{Command, Stdio};

pub struct C12;

/// Serialise with the keys of every object permuted (seeded) and optional
/// pretty printing: same content, different text.
pub fn permuted_text(v: &Value, seed: u64, pretty: bool) -> String {
    fn next(s: &mut u64) -> u64 {
        *s = s.wrapping_mul(6364136223846793005).wrapping_add(1442695040888963407);
        *s >> 33
    }
    fn write(v: &Value, s: &mut u64, out: &mut String, pretty: bool, depth: usize) {
        let nl = |out: &mut String, d: usize| {
            if pretty {
                out.push('\n');
                for _ in 0..d {
                    out.push_str("   ");
                }
            }
        };
        match v {
            Value::Object(o) => {
                let mut keys: Vec<&String> = o.keys().collect();
                for i in (1..keys.len()).rev() {
                    let j = (next(s) % (i as u64 + 1)) as usize;
                    keys.swap(i, j);
                }
                out.push('{');
                for (n, k) in keys.iter().enumerate() {
                    if n > 0 {
                        out.push(',');
                    }
                    nl(out, depth + 1);
                    out.push_str(&serde_json::to_string(k).unwrap());
                    out.push(':');
                    if pretty {
                        out.push(' ');
                    }
                    write(&o[*k], s, out, pretty, depth + 1);
                }
                if !keys.is_empty() {
                    nl(out, depth);
                }
                out.push('}');
            }
            Value::Array(a) => {
                out.push('[');
                for (n, x) in a.iter().enumerate() {
                    if n > 0 {
                        out.push(',');
                    }
                    nl(out, depth + 1);
                    write(x, s, out, pretty, depth + 1);
                }
                if !a.is_empty() {
                    nl(out, depth);
                }
                out.push(']');
            }
            other => out.push_str(&serde_json::to_string(other).unwrap()),
        }
    }
    let mut s = seed | 1;
    let mut out = String::new();
    write(v, &mut s, &mut out, pretty, 0);
    out
}

/// text -> tokens string ("ERR: ..." when ingestion fails)
pub fn render_text(settings: &Settings, text: &str) -> String {
    let doc: Value = match serde_json::from_str(text) {
        Ok(d) => d,
        Err(e) => return format!("ERR: json {e}"),
    };
    let case = Case { settings: settings.clone(), history: vec![Step::Root { doc }], ..Default::default() };
    let ing = ingest::ingest(&case);
    if ing.outcome != Outcome::Ok {
        return format!("ERR: {:?} {}", ing.outcome, ing.message);
    }
    match ingest::guarded(|| ing.space.to_stream().to_string()) {
        Ok(s) => s,
        Err(p) => format!("ERR: render panic {p}"),
    }
}

/// `vrf render`: one request on stdin, tokens on stdout (fresh process).
pub fn render_main() {
    ingest::install_panic_hook();
    let mut input = String::new();
    std::io::Read::read_to_string(&mut std::io::stdin(), &mut input).ok();
    let req: Value = serde_json::from_str(&input).unwrap_or(Value::Null);
    let settings: Settings = serde_json::from_value(req["settings"].clone()).unwrap_or_default();
    let text = req["text"].as_str().unwrap_or("");
    let out = render_text(&settings, text);
    print!("{}{}", crate::pool::MARK, out);
}

fn render_in_child(settings: &Settings, text: &str) -> Result<String, String> {
    let exe = std::env::current_exe().map_err(|e| e.to_string())?;
    let mut child = Command::new(exe).arg("render").stdin(Stdio::piped()).stdout(Stdio::piped()).stderr(Stdio::null()).spawn().map_err(|e| e.to_string())?;
    let req = json!({"settings": settings, "text": text}).to_string();
    child.stdin.take().unwrap().write_all(req.as_bytes()).map_err(|e| e.to_string())?;
    let out = child.wait_with_output().map_err(|e| e.to_string())?;
    let s = String::from_utf8_lossy(&out.stdout).to_string();
    match s.find(crate::pool::MARK) {
        Some(i) => Ok(s[i + crate::pool::MARK.len()..].to_string()),
        None => Err(format!("render child gave no marked output (status {})", out.status)),
    }
}

const CLI: &str = "/repo/target/debug/cargo-typify";

/// Run the real cargo-typify binary on `text` in a scratch directory.
pub fn run_cli(text: &str, args: &[String], tag: &str) -> Result<(bool, String, String), String> {
    let dir = std::path::Path::new("/verif/work").join(format!("cli-{}-{}", std::process::id(), tag));
    let _ = std::fs::remove_dir_all(&dir);
    std::fs::create_dir_all(&dir).map_err(|e| e.to_string())?;
    let input = dir.join("input.json");
    std::fs::write(&input, text).map_err(|e| e.to_string())?;
    let out = Command::new(CLI).arg("typify").arg(&input).args(args).current_dir(&dir).output().map_err(|e| format!("{CLI}: {e}"))?;
    let file = std::fs::read_to_string(dir.join("input.rs")).unwrap_or_default();
    let stderr = String::from_utf8_lossy(&out.stderr).to_string();
    let _ = std::fs::remove_dir_all(&dir);
    Ok((out.status.success(), file, stderr))
}

pub fn gen_c12_case(g: &mut G) -> Value {
    let cfg = if g.chance(1, 2) { gs::Cfg::wide() } else { gs::Cfg::faithful() };
    let mut doc = gs::document(g, &cfg);
    // order-sensitive region: sibling inline schemas that derive the *same* type name
    // (same title, or same-named property in two variants) but differ; whichever is
    // converted first wins, so any hash-ordered traversal shows up here
    if g.chance(1, 2) {
        let title = *g.pick(&["Side", "Shared Part", "dup"]);
        let mut props = serde_json::Map::new();
        let np = 2 + g.below(4);
        for n in crate::gen::names::benign_props(g, np) {
            props.insert(n.clone(), json!({"title": title, "type": "object", "properties": {format!("m_{n}"): {"type": "boolean"}}}));
        }
        doc["definitions"]["Frame"] = json!({"type": "object", "properties": props});
    }
    if g.chance(1, 4) {
        doc["definitions"]["Variants"] = json!({"oneOf": [
            {"type": "object", "properties": {"kind": {"type": "string", "enum": ["a"]}, "payload": {"type": "object", "properties": {"x": {"type": "string"}}}}, "required": ["kind"]},
            {"type": "object", "properties": {"kind": {"type": "string", "enum": ["b"]}, "payload": {"type": "object", "properties": {"y": {"type": "integer"}}}}, "required": ["kind"]},
            {"type": "object", "properties": {"kind": {"type": "string", "enum": ["c"]}, "payload": {"type": "string", "enum": ["p", "q"]}}, "required": ["kind"]}]});
    }
    if g.chance(1, 3) {
        // a tagged union with more than one candidate tag property
        let tags: Vec<&str> = g.subset(&["kind", "type", "variant", "a_tag"], 2, 3);
        let tags: Vec<&str> = if tags.len() < 2 { vec!["kind", "type"] } else { tags };
        let mk = |vals: &[&str], extra: &str| -> Value {
            let mut props = serde_json::Map::new();
            for (t, v) in tags.iter().zip(vals.iter().cycle()) {
                props.insert(t.to_string(), json!({"type": "string", "enum": [format!("{v}_{t}")]}));
            }
            props.insert(extra.to_string(), json!({"type": "integer"}));
            json!({"type": "object", "properties": props, "required": tags})
        };
        doc["definitions"]["TwoTags"] = json!({"oneOf": [mk(&["circle"], "radius"), mk(&["square"], "side"), mk(&["line"], "len")]});
    }
    if g.chance(1, 3) {
        // defaults with several members: sets, maps, struct-valued and nested ones
        let words = ["delta", "alpha", "echo", "bravo", "charlie", "foxtrot"];
        let k = 3 + g.below(4);
        let set: Vec<&str> = words.iter().take(k).cloned().collect();
        let map: serde_json::Map<String, Value> = words.iter().take(k).enumerate().map(|(i, w)| (w.to_string(), json!(i))).collect();
        doc["definitions"]["ManyMemberDefaults"] = json!({
            "type": "object",
            "properties": {
                "tags": {"type": "array", "items": {"type": "string"}, "uniqueItems": true, "default": set},
                "nums": {"type": "array", "items": {"type": "integer"}, "uniqueItems": true, "default": [5, 3, 9, 1, 7]},
                "weights": {"type": "object", "additionalProperties": {"type": "integer"}, "default": map},
                "inner": {"$ref": "#/definitions/ManyMemberInner"},
                "list": {"type": "array", "items": {"$ref": "#/definitions/ManyMemberInner"}, "default": [{"a": 1, "b": "x", "c": true}, {"a": 2}]}
            }
        });
        doc["definitions"]["ManyMemberInner"] = json!({
            "type": "object",
            "properties": {"a": {"type": "integer"}, "b": {"type": "string"}, "c": {"type": "boolean"}, "d": {"type": "array", "items": {"type": "string"}, "uniqueItems": true}},
            "default": {"a": 4, "b": "bee", "c": false, "d": ["z", "y", "x"]}
        });
    }
    if g.chance(1, 3) {
        // conjunctions whose result has several members: enumerations that overlap partly,
        // required sets and property sets contributed by both sides
        doc["definitions"]["SeveralPatterns"] = json!({"type": "object", "patternProperties": {"^x-": {"type": "string"}, "^y-": {"type": "string"}, "^[a-c]+$": {"type": "string"}, "^z": {"type": "string"}, "-q$": {"type": "string"}, "^m.*n$": {"type": "string"}}, "additionalProperties": false});
        doc["definitions"]["OverlapStates"] = json!({"type": "string", "enum": ["draft", "open", "blocked", "review", "merged", "closed"]});
        doc["definitions"]["OverlapNarrowed"] = json!({"allOf": [{"$ref": "#/definitions/OverlapStates"}, {"enum": ["triaged", "open", "blocked", "review", "merged", "closed", "archived"]}]});
        doc["definitions"]["OverlapInline"] = json!({"allOf": [{"type": "string", "enum": ["n", "e", "s", "w", "up"]}, {"type": "string", "enum": ["down", "w", "s", "e", "n"]}]});
        doc["definitions"]["OverlapObjects"] = json!({"allOf": [
            {"type": "object", "properties": {"b1": {"type": "integer"}, "a1": {"type": "string"}, "shared": {"type": "string", "enum": ["p", "q", "r", "s"]}}, "required": ["b1", "a1"]},
            {"type": "object", "properties": {"d2": {"type": "integer"}, "c2": {"type": "string"}, "shared": {"type": "string", "enum": ["s", "r", "q", "zz"]}}, "required": ["d2", "c2", "shared"]}
        ]});
    }
    let settings = settings(g, &doc, true);
    json!({"settings": settings, "doc": doc, "perm": g.u64() % 1_000_000, "cli": false})
}

impl Property for C12 {
    fn id(&self) -> &'static str {
        "C12"
    }
    fn rule(&self) -> String {
        "documents from the wide and faithful grammars with generated settings; for each: three renderings of one TypeSpace, three fresh TypeSpaces in one process, two freshly spawned processes, three key-order permutations (one re-indented) of the document text, and for a sample the real cargo-typify binary run twice and on a permuted text; non-trivial = ingestion succeeds, the document has >=2 definitions or properties and the permutation changed the text; distinct by canonical JSON of the case".into()
    }
    fn assumptions(&self) -> Vec<String> {
        vec!["process-level nondeterminism is sampled with 2 extra processes per case (hash seeds differ per process and per map)".into(), "cargo-typify is built from /repo's working tree by the check script".into()]
    }
    fn generate(&self, tier: Tier, seed: u64) -> Vec<Value> {
        let mut v = gen::draw(seed, "C12", tier.pick(500, 20000), gen_c12_case);
        let n_cli = tier.pick(24, 400);
        for c in v.iter_mut().take(n_cli) {
            c["cli"] = json!(true);
        }
        v
    }
    fn timeout(&self) -> std::time::Duration {
        std::time::Duration::from_secs(120)
    }
    fn fuzz_gen(&self, g: &mut G) -> Option<Value> {
        Some(gen_c12_case(g))
    }
    fn prepare(&self, c: &Value) -> Unit {
        let Ok(settings) = serde_json::from_value::<Settings>(c["settings"].clone()) else { return invalid_unit("settings".into()) };
        let doc = &c["doc"];
        if !doc.is_object() {
            return invalid_unit("doc".into());
        }
        let perm = c["perm"].as_u64().unwrap_or(1);
        let mut unit = Unit::default();
        let t0 = serde_json::to_string(doc).unwrap();
        let case = Case { settings: settings.clone(), history: vec![Step::Root { doc: doc.clone() }], ..Default::default() };
        let ing = ingest::ingest(&case);
        unit.outcome = ing.outcome.clone();
        unit.message = ing.message.clone();
        if ing.outcome != Outcome::Ok {
            return unit;
        }
        // (1) same TypeSpace, three renderings
        let base = match ingest::guarded(|| ing.space.to_stream().to_string()) {
            Ok(s) => s,
            Err(_) => return unit, // C01's subject
        };
        for _ in 0..2 {
            match ingest::guarded(|| ing.space.to_stream().to_string()) {
                Ok(s) if s == base => {}
                _ => unit.violations.push(Violation::new("rerender-differs", "to_stream() on one TypeSpace returned different tokens".to_string())),
            }
        }
        // (2) fresh TypeSpaces, same process
        for _ in 0..2 {
            if render_text(&settings, &t0) != base {
                unit.violations.push(Violation::new("fresh-typespace-differs", "a fresh TypeSpace in the same process produced different output".to_string()));
            }
        }
        // (4) key order / whitespace
        let mut changed = false;
        for (k, pretty) in [(1u64, false), (2, true), (3, false)] {
            let t = permuted_text(doc, perm.wrapping_mul(31).wrapping_add(k), pretty);
            if t != t0 {
                changed = true;
            }
            let o = render_text(&settings, &t);
            if o != base {
                unit.violations.push(Violation::new("key-order-or-whitespace-changes-output", format!("permuted text gives different output; first difference near byte {}", o.bytes().zip(base.bytes()).position(|(a, b)| a != b).unwrap_or(o.len().min(base.len())))));
            }
        }
        // (3) fresh processes (not from inside the libFuzzer target)
        for _ in 0..if crate::fuzzing::in_fuzz() { 0 } else { 2 } {
            match render_in_child(&settings, &t0) {
                Ok(o) => {
                    if o != base {
                        unit.violations.push(Violation::new("fresh-process-differs", format!("a freshly spawned process produced different output; first difference near byte {}", o.bytes().zip(base.bytes()).position(|(a, b)| a != b).unwrap_or(0))));
                    }
                }
                Err(e) => {
                    unit.outcome = Outcome::Crash;
                    unit.message = format!("HARNESS render child: {e}");
                    return unit;
                }
            }
        }
        // real binary, default settings only (its option handling is C15's subject)
        if c["cli"].as_bool() == Some(true) && std::path::Path::new(CLI).exists() {
            let a = run_cli(&t0, &[], "a");
            let b = run_cli(&t0, &[], "b");
            let p = run_cli(&permuted_text(doc, perm + 7, true), &[], "p");
            if let (Ok(a), Ok(b), Ok(p)) = (a, b, p) {
                unit.classes.push("cli".into());
                if a.0 != b.0 || a.1 != b.1 {
                    unit.violations.push(Violation::new("cli-runs-differ", "two runs of cargo-typify on the same file differ".to_string()));
                }
                if a.0 != p.0 || a.1 != p.1 {
                    unit.violations.push(Violation::new("cli-key-order-changes-output", "cargo-typify output changes with key order / whitespace".to_string()));
                }
            }
        }
        let ndefs = gs::def_names(doc).len();
        unit.nontrivial = changed && ndefs >= 1 && t0.matches("\"properties\"").count() + ndefs >= 2;
        let mut seen = std::collections::BTreeSet::new();
        unit.violations.retain(|v| seen.insert(v.symptom.clone()));
        unit
    }
    fn in_domain(&self, c: &Value) -> bool {
        serde_json::from_value::<Settings>(c["settings"].clone()).map(|s| settings_in_domain(&s, &c["doc"]["definitions"])).unwrap_or(false)
    }
    fn predicate(&self, name: &str, case: &Value, v: &Violation) -> bool {
        super::predicates::check(name, case, v)
    }
}

pub struct CliRun {
    pub success: bool,
    pub stdout: String,
    pub stderr: String,
    /// every file in the scratch directory after the run (name -> content)
    pub files: std::collections::BTreeMap<String, String>,
}

/// Run cargo-typify in a scratch directory holding `input.json` (and any
/// pre-existing files); report exit status, streams and the resulting files.
pub fn run_cli_full(text: &str, args: &[String], tag: &str, pre_existing: &[(&str, &str)]) -> Result<CliRun, String> {
    static N: std::sync::atomic::AtomicUsize = std::sync::atomic::AtomicUsize::new(0);
    let n = N.fetch_add(1, std::sync::atomic::Ordering::SeqCst);
    let dir = std::path::Path::new("/verif/work").join(format!("cli-{}-{}-{}", std::process::id(), tag, n));
    let _ = std::fs::remove_dir_all(&dir);
    std::fs::create_dir_all(&dir).map_err(|e| e.to_string())?;
    std::fs::write(dir.join("input.json"), text).map_err(|e| e.to_string())?;
    for (name, content) in pre_existing {
        std::fs::write(dir.join(name), content).map_err(|e| e.to_string())?;
    }
    if !std::path::Path::new(CLI).exists() {
        return Err(format!("{CLI} not built"));
    }
    let out = Command::new(CLI).arg("typify").arg("input.json").args(args).current_dir(&dir).output().map_err(|e| format!("{CLI}: {e}"))?;
    let mut files = std::collections::BTreeMap::new();
    if let Ok(rd) = std::fs::read_dir(&dir) {
        for e in rd.flatten() {
            let name = e.file_name().to_string_lossy().to_string();
            files.insert(name, std::fs::read_to_string(e.path()).unwrap_or_default());
        }
    }
    let _ = std::fs::remove_dir_all(&dir);
    Ok(CliRun { success: out.status.success(), stdout: String::from_utf8_lossy(&out.stdout).to_string(), stderr: String::from_utf8_lossy(&out.stderr).to_string(), files })
}
