//! C13 -- x-rust-type substitution follows the documented crate/version
//! policy. Exhaustive decision table; reference decision function written
//! from the README (DESIGN.md Appendix B.2).

use super::common::*;
use crate::case::*;
use crate::engine::*;
use crate::ingest::{self, Outcome};
use serde_json::{json, Map, Value};

pub struct C13;

// ---------------------------------------------------------------------------
// reference semver matcher for the generated operator subset

#[derive(Clone, Debug, PartialEq)]
struct V {
    n: [u64; 3],
    pre: Vec<String>,
}

fn parse_v(s: &str) -> Option<V> {
    let (core, pre) = match s.split_once('-') {
        Some((c, p)) => (c, p.split('.').map(|x| x.to_string()).collect()),
        None => (s, vec![]),
    };
    let parts: Vec<&str> = core.split('.').collect();
    if parts.len() != 3 {
        return None;
    }
    Some(V { n: [parts[0].parse().ok()?, parts[1].parse().ok()?, parts[2].parse().ok()?], pre })
}

fn cmp_pre(a: &[String], b: &[String]) -> std::cmp::Ordering {
    use std::cmp::Ordering::*;
    match (a.is_empty(), b.is_empty()) {
        (true, true) => return Equal,
        (true, false) => return Greater, // release > pre-release
        (false, true) => return Less,
        _ => {}
    }
    for (x, y) in a.iter().zip(b) {
        let o = match (x.parse::<u64>(), y.parse::<u64>()) {
            (Ok(p), Ok(q)) => p.cmp(&q),
            (Ok(_), Err(_)) => Less,
            (Err(_), Ok(_)) => Greater,
            _ => x.cmp(y),
        };
        if o != Equal {
            return o;
        }
    }
    a.len().cmp(&b.len())
}

fn cmp_v(a: &V, b: &V) -> std::cmp::Ordering {
    a.n.cmp(&b.n).then_with(|| cmp_pre(&a.pre, &b.pre))
}

struct Cmp {
    op: String,
    parts: Vec<Option<u64>>, // None = wildcard
    pre: Vec<String>,
}

fn parse_cmp(s: &str) -> Option<Cmp> {
    let s = s.trim();
    let (op, rest) = if let Some(r) = s.strip_prefix(">=") {
        (">=", r)
    } else if let Some(r) = s.strip_prefix("<=") {
        ("<=", r)
    } else if let Some(r) = s.strip_prefix('>') {
        (">", r)
    } else if let Some(r) = s.strip_prefix('<') {
        ("<", r)
    } else if let Some(r) = s.strip_prefix('=') {
        ("=", r)
    } else if let Some(r) = s.strip_prefix('^') {
        ("^", r)
    } else if let Some(r) = s.strip_prefix('~') {
        ("~", r)
    } else {
        ("^", s)
    };
    let rest = rest.trim();
    let (core, pre) = match rest.split_once('-') {
        Some((c, p)) => (c, p.split('.').map(|x| x.to_string()).collect()),
        None => (rest, vec![]),
    };
    let mut parts = vec![];
    for p in core.split('.') {
        if p == "*" || p == "x" {
            parts.push(None);
        } else {
            parts.push(Some(p.parse().ok()?));
        }
    }
    if parts.is_empty() || parts.len() > 3 {
        return None;
    }
    Some(Cmp { op: op.to_string(), parts, pre })
}

fn cmp_matches(c: &Cmp, v: &V) -> bool {
    use std::cmp::Ordering::*;
    let given: Vec<u64> = c.parts.iter().take_while(|p| p.is_some()).map(|p| p.unwrap()).collect();
    let wildcard = c.parts.iter().any(|p| p.is_none());
    if given.is_empty() {
        return true; // "*"
    }
    let lo = V { n: [given[0], *given.get(1).unwrap_or(&0), *given.get(2).unwrap_or(&0)], pre: c.pre.clone() };
    let bump = |k: usize| -> V {
        let mut n = [given[0], *given.get(1).unwrap_or(&0), *given.get(2).unwrap_or(&0)];
        n[k] += 1;
        for x in n.iter_mut().skip(k + 1) {
            *x = 0;
        }
        V { n, pre: vec![] }
    };
    let ge = |a: &V, b: &V| cmp_v(a, b) != Less;
    let lt = |a: &V, b: &V| cmp_v(a, b) == Less;
    // `< X.0.0` style upper bounds compare on the release triple only
    let below = |a: &V, b: &V| a.n < b.n;
    let op = if wildcard { "=" } else { c.op.as_str() };
    match op {
        "=" => match given.len() {
            3 => cmp_v(v, &lo) == Equal,
            2 => ge(v, &lo) && below(v, &bump(1)),
            _ => ge(v, &lo) && below(v, &bump(0)),
        },
        ">" => match given.len() {
            3 => cmp_v(v, &lo) == Greater,
            2 => !below(v, &bump(1)),
            _ => !below(v, &bump(0)),
        },
        ">=" => ge(v, &lo),
        "<" => lt(v, &lo),
        "<=" => match given.len() {
            3 => cmp_v(v, &lo) != Greater,
            2 => below(v, &bump(1)),
            _ => below(v, &bump(0)),
        },
        "~" => match given.len() {
            1 => ge(v, &lo) && below(v, &bump(0)),
            _ => ge(v, &lo) && below(v, &bump(1)),
        },
        "^" => {
            let k = if given[0] > 0 || given.len() == 1 {
                0
            } else if given.get(1).copied().unwrap_or(0) > 0 || given.len() == 2 {
                1
            } else {
                2
            };
            ge(v, &lo) && below(v, &bump(k))
        }
        _ => false,
    }
}

/// Cargo's rule for pre-releases: a pre-release version matches only if some
/// comparator names the same major.minor.patch with a pre-release tag.
pub fn ref_matches(req: &str, v: &str) -> Option<bool> {
    let v = parse_v(v)?;
    let cmps: Vec<Cmp> = req.split(',').map(parse_cmp).collect::<Option<Vec<_>>>()?;
    if !cmps.iter().all(|c| cmp_matches(c, &v)) {
        return Some(false);
    }
    if !v.pre.is_empty() {
        let ok = cmps.iter().any(|c| !c.pre.is_empty() && c.parts.len() == 3 && c.parts.iter().zip(v.n.iter()).all(|(p, n)| *p == Some(*n)));
        return Some(ok);
    }
    Some(true)
}

/// (requirement, version, expected) built by construction on both sides of
/// every operator.
pub const TABLE: &[(&str, &str, bool)] = &[
    // bare = caret
    ("1.2.3", "1.2.3", true), ("1.2.3", "1.2.2", false), ("1.2.3", "1.9.0", true), ("1.2.3", "2.0.0", false), ("1.2.3", "1.2.4", true),
    ("0.1.0", "0.1.1", true), ("0.1.0", "0.2.0", false), ("0.2.2", "0.2.0", false), ("0.2.2", "0.2.2", true),
    ("^1.2.3", "1.2.3", true), ("^1.2.3", "1.2.2", false), ("^1.2.3", "1.99.99", true), ("^1.2.3", "2.0.0", false),
    ("^0.2.3", "0.2.3", true), ("^0.2.3", "0.2.9", true), ("^0.2.3", "0.3.0", false), ("^0.2.3", "0.2.2", false),
    ("^0.0.3", "0.0.3", true), ("^0.0.3", "0.0.4", false), ("^0.0.3", "0.0.2", false),
    ("^1.2", "1.2.0", true), ("^1.2", "1.1.9", false), ("^1.2", "1.9.9", true), ("^1.2", "2.0.0", false),
    ("^0.0", "0.0.7", true), ("^0.0", "0.1.0", false), ("^0", "0.9.9", true), ("^0", "1.0.0", false),
    ("1", "1.0.0", true), ("1", "1.9.3", true), ("1", "2.0.0", false), ("1", "0.9.9", false),
    // tilde
    ("~1.2.3", "1.2.3", true), ("~1.2.3", "1.2.9", true), ("~1.2.3", "1.3.0", false), ("~1.2.3", "1.2.2", false),
    ("~1.2", "1.2.0", true), ("~1.2", "1.2.9", true), ("~1.2", "1.3.0", false), ("~1.2", "1.1.9", false),
    ("~1", "1.0.0", true), ("~1", "1.9.9", true), ("~1", "2.0.0", false), ("~0.3", "0.3.7", true), ("~0.3", "0.4.0", false),
    // exact and inequalities
    ("=1.2.3", "1.2.3", true), ("=1.2.3", "1.2.4", false), ("=1.2.3", "1.2.2", false), ("=1.2", "1.2.7", true), ("=1.2", "1.3.0", false),
    (">1.2.3", "1.2.4", true), (">1.2.3", "1.2.3", false), (">1.2.3", "9.0.0", true), (">1.2", "1.3.0", true), (">1.2", "1.2.9", false),
    (">=1.2.3", "1.2.3", true), (">=1.2.3", "1.2.2", false), (">=1.2.3", "3.0.0", true),
    ("<1.2.3", "1.2.2", true), ("<1.2.3", "1.2.3", false), ("<1.2.3", "0.0.1", true),
    ("<=1.2.3", "1.2.3", true), ("<=1.2.3", "1.2.4", false), ("<=1.2", "1.2.9", true), ("<=1.2", "1.3.0", false),
    // wildcards
    ("*", "0.0.1", true), ("*", "99.0.0", true), ("1.*", "1.5.0", true), ("1.*", "2.0.0", false), ("1.2.*", "1.2.9", true), ("1.2.*", "1.3.0", false),
    // ranges
    (">=0.1.0, <1.0.0", "0.1.0", true), (">=0.1.0, <1.0.0", "0.99.0", true), (">=0.1.0, <1.0.0", "1.0.0", false), (">=0.1.0, <1.0.0", "0.0.9", false),
    (">1.0.0, <=1.5.0", "1.5.0", true), (">1.0.0, <=1.5.0", "1.0.0", false), (">1.0.0, <=1.5.0", "1.5.1", false),
    // pre-releases
    ("1.2.3-alpha.1", "1.2.3-alpha.1", true), ("1.2.3-alpha.1", "1.2.3-alpha.2", true), ("1.2.3-alpha.1", "1.2.3-alpha.0", false),
    ("1.2.3-alpha.1", "1.2.3", true), ("1.2.3-alpha.1", "1.2.4", true), ("1.2.3-alpha.1", "1.2.4-alpha.1", false), ("1.2.3-alpha.1", "2.0.0", false),
    ("1.2.3", "1.2.4-beta", false), (">=1.0.0", "2.0.0-rc.1", false), ("=1.2.3-rc.1", "1.2.3-rc.1", true), ("=1.2.3-rc.1", "1.2.3", false),
];

/// Self-check of the three opinions (construction, reference matcher, semver
/// crate). A disagreement is an oracle defect, never a violation.
pub fn oracle_selfcheck() -> Result<(), String> {
    for (req, v, want) in TABLE {
        let r = ref_matches(req, v);
        let s = semver::VersionReq::parse(req).ok().and_then(|r| semver::Version::parse(v).ok().map(|v| r.matches(&v)));
        if r != Some(*want) || s != Some(*want) {
            return Err(format!("semver oracle disagreement on ({req}, {v}): construction={want} reference={r:?} semver-crate={s:?}"));
        }
    }
    Ok(())
}

// ---------------------------------------------------------------------------

const MARKER_FIELD: &str = "zz_marker_field";

fn annotated(ext: Value) -> Value {
    json!({"type": "object", "properties": {MARKER_FIELD: {"type": "string"}}, "required": [MARKER_FIELD], "x-rust-type": ext})
}

fn params(kind: usize) -> (Vec<Value>, Vec<&'static str>) {
    match kind {
        0 => (vec![], vec![]),
        1 => (vec![json!({"type": "integer"})], vec!["i64"]),
        2 => (vec![json!({"type": "integer"}), json!({"$ref": "#/definitions/Par"})], vec!["i64", "Par"]),
        _ => (vec![json!({"$ref": "#/definitions/Par"}), json!({"type": "boolean"})], vec!["Par", "bool"]),
    }
}

#[allow(clippy::too_many_arguments)]
fn cell(crate_name: &str, req: &str, cfg: &str, rename: Option<&str>, unknown: &str, pkind: usize, site: &str, malformed: &str, expect_match: Option<bool>) -> Value {
    json!({"crate": crate_name, "req": req, "cfg": cfg, "rename": rename, "unknown": unknown, "params": pkind, "site": site, "malformed": malformed, "expect_match": expect_match})
}

struct Built {
    case: Case,
    /// expected path (no spaces) when substituted
    expected_path: String,
    substitute: bool,
    def_name: String,
    /// (property name, expected path) of the sibling use, if any
    sibling_expected: Option<(String, String)>,
}

fn build(c: &Value) -> Option<Built> {
    let crate_name = c["crate"].as_str()?;
    let req = c["req"].as_str()?;
    let cfg = c["cfg"].as_str()?;
    let rename = c["rename"].as_str();
    let unknown = c["unknown"].as_str()?;
    let pkind = c["params"].as_u64()? as usize;
    let site = c["site"].as_str()?;
    let malformed = c["malformed"].as_str()?;
    let ident = crate_name.replace('-', "_");
    let mut path = format!("{ident}::things::Thing");
    let (pschemas, pidents) = params(pkind);
    let mut ext = Map::new();
    ext.insert("crate".into(), json!(crate_name));
    ext.insert("version".into(), json!(req));
    ext.insert("path".into(), json!(path));
    if !pschemas.is_empty() {
        ext.insert("parameters".into(), json!(pschemas));
    }
    let mut ext_v = Value::Object(ext.clone());
    let mut wellformed = true;
    match malformed {
        "none" => {}
        "bad-req" => {
            ext.insert("version".into(), json!("not a version"));
            ext_v = Value::Object(ext.clone());
            wellformed = false;
        }
        "bad-req-op" => {
            ext.insert("version".into(), json!(">="));
            ext_v = Value::Object(ext.clone());
            wellformed = false;
        }
        "path-other-crate" => {
            path = "other_crate::things::Thing".into();
            ext.insert("path".into(), json!(path));
            ext_v = Value::Object(ext.clone());
            wellformed = false;
        }
        "path-prefix-sharing" => {
            // the path's root merely *starts with* the crate's identifier
            path = format!("{ident}_extras::things::Thing");
            ext.insert("path".into(), json!(path));
            ext_v = Value::Object(ext.clone());
            wellformed = false;
        }
        "path-prefix-of-crate" => {
            // the path's root is a proper prefix of the crate's identifier
            path = format!("{}::things::Thing", &ident[..ident.len() - 1]);
            ext.insert("path".into(), json!(path));
            ext_v = Value::Object(ext.clone());
            wellformed = false;
        }
        "path-no-sep" => {
            ext.insert("path".into(), json!("Thing"));
            ext_v = Value::Object(ext.clone());
            wellformed = false;
        }
        "missing-version" => {
            ext.remove("version");
            ext_v = Value::Object(ext.clone());
            wellformed = false;
        }
        "missing-path" => {
            ext.remove("path");
            ext_v = Value::Object(ext.clone());
            wellformed = false;
        }
        "missing-crate" => {
            ext.remove("crate");
            ext_v = Value::Object(ext.clone());
            wellformed = false;
        }
        "version-number" => {
            ext.insert("version".into(), json!(1));
            ext_v = Value::Object(ext.clone());
            wellformed = false;
        }
        "not-an-object" => {
            ext_v = json!("my_crate::things::Thing");
            wellformed = false;
        }
        "parameters-object" => {
            ext.insert("parameters".into(), json!({"a": 1}));
            ext_v = Value::Object(ext.clone());
            wellformed = false;
        }
        _ => return None,
    }
    let ann = annotated(ext_v);
    let mut defs = Map::new();
    defs.insert("Par".into(), json!({"type": "object", "properties": {"x": {"type": "string"}}, "required": ["x"]}));
    let def_name = match site {
        "def_same" => "Thing",
        "def_diff" => "LocalName",
        _ => "",
    };
    let prop_schema = match site {
        // as the key schema of a map (no `type`: a key is a string anyway)
        "mapkey" => json!({"type": "object", "propertyNames": {"x-rust-type": ann["x-rust-type"].clone()}, "additionalProperties": {"type": "integer"}}),
        "property" => ann.clone(),
        "item" => json!({"type": "array", "items": ann.clone()}),
        _ => {
            defs.insert(def_name.into(), ann.clone());
            json!({"$ref": format!("#/definitions/{def_name}")})
        }
    };
    let mut holder_props = Map::new();
    holder_props.insert("p".into(), prop_schema);
    // a second use of the same path with *different* type parameters in the same type space,
    // converted before ("a_sibling") or after ("z_sibling") the property under observation
    let sibling = c.get("sibling").and_then(|s| s.as_str()).unwrap_or("none");
    let mut sibling_expected = None;
    if sibling != "none" {
        if malformed != "none" || !matches!(sibling, "before" | "after") {
            return None;
        }
        let (sp, sidents) = params((pkind + 1) % 4);
        let mut sext = ext.clone();
        if sp.is_empty() {
            sext.remove("parameters");
        } else {
            sext.insert("parameters".into(), json!(sp));
        }
        let name = if sibling == "before" { "a_sibling" } else { "z_sibling" };
        holder_props.insert(name.into(), annotated(Value::Object(sext)));
        sibling_expected = Some((name.to_string(), sidents));
    }
    let required: Vec<String> = holder_props.keys().cloned().collect();
    defs.insert("Holder".into(), json!({"type": "object", "properties": holder_props, "required": required}));
    let mut settings = Settings::default();
    if cfg != "absent" {
        settings.crates.insert(crate_name.into(), CrateCfg { version: cfg.into(), rename: rename.map(|s| s.to_string()) });
    }
    settings.unknown_crates = Some(unknown.into());
    let matches = c["expect_match"].as_bool();
    let substitute = wellformed
        && match cfg {
            "absent" => unknown == "Allow",
            "*" => true,
            "!" => false,
            _ => matches?,
        };
    let first = match (cfg != "absent", rename) {
        (true, Some(r)) => r.replace('-', "_"),
        _ => ident.clone(),
    };
    let mut expected_path = format!("::{first}::things::Thing");
    if !pidents.is_empty() {
        expected_path.push_str(&format!("<{}>", pidents.join(",")));
    }
    let sibling_expected = sibling_expected.map(|(n, idents)| {
        let mut e = format!("::{first}::things::Thing");
        if !idents.is_empty() {
            e.push_str(&format!("<{}>", idents.join(",")));
        }
        (n, e)
    });
    let case = Case { settings, history: vec![Step::Root { doc: json!({"definitions": Value::Object(defs)}) }], roots: vec![RootSel::Ref { r: "#/definitions/Holder".into() }], ..Default::default() };
    Some(Built { case, expected_path, substitute, def_name: def_name.to_string(), sibling_expected })
}

impl Property for C13 {
    fn id(&self) -> &'static str {
        "C13"
    }
    fn rule(&self) -> String {
        "exhaustive decision table: crate entry {absent, *, !, version} x unknown policy {Generate, Allow, Deny} x (requirement, version) pairs built on both sides of every semver operator x rename {none, plain, hyphenated} x parameters {0, 1, 2 inline/$ref} x use site {property, array item, definition named like / unlike the path's last segment} x malformed-extension variants; every cell is non-trivial (the extension is present); distinct by cell".into()
    }
    fn assumptions(&self) -> Vec<String> {
        vec![
            "expected `matches` comes from the construction of each pair; a reference matcher and the semver crate are cross-checked at start-up (disagreement = exit 2)".into(),
            "parameter types are read as i64 / bool / the referenced definition's name".into(),
        ]
    }
    fn exhaustive(&self, _tier: Tier) -> bool {
        true
    }
    fn chunk(&self) -> usize {
        40000
    }
    fn generate(&self, _tier: Tier, _seed: u64) -> Vec<Value> {
        if let Err(e) = oracle_selfcheck() {
            eprintln!("INFRA: {e}");
            std::process::exit(2);
        }
        let mut out = vec![];
        let unknowns = ["Generate", "Allow", "Deny"];
        let renames: [Option<&str>; 3] = [None, Some("other"), Some("oth-er")];
        let sites = ["property", "item", "def_same", "def_diff"];
        // versioned configuration against the whole table
        for (i, (req, v, want)) in TABLE.iter().enumerate() {
            let crate_name = if i % 2 == 0 { "my-crate" } else { "plain" };
            for u in unknowns {
                for r in renames {
                    for p in 0..4 {
                        for s in sites {
                            out.push(cell(crate_name, req, v, r, u, p, s, "none", Some(*want)));
                        }
                    }
                }
            }
        }
        // other configurations
        for cfg in ["absent", "*", "!"] {
            for req in ["1.2.3", ">=0.1.0, <1.0.0", "~0.3"] {
                for u in unknowns {
                    for r in renames {
                        for p in 0..4 {
                            for s in sites {
                                out.push(cell("my-crate", req, cfg, r, u, p, s, "none", None));
                            }
                        }
                    }
                }
            }
        }
        // two uses of one path with different parameters in one type space
        for sib in ["before", "after"] {
            for p in 0..4 {
                for s in ["property", "item"] {
                    for (cfg, u) in [("*", "Generate"), ("absent", "Allow"), ("1.2.3", "Deny")] {
                        let mut c = cell("my-crate", "1.2.3", cfg, None, u, p, s, "none", if cfg == "1.2.3" { Some(true) } else { None });
                        c["sibling"] = json!(sib);
                        out.push(c);
                    }
                }
            }
        }
        // the annotated schema as a map's key schema
        for p in 0..4 {
            for r in renames {
                for (cfg, u, want) in [("*", "Generate", None), ("absent", "Allow", None), ("absent", "Generate", None), ("absent", "Deny", None), ("!", "Allow", None), ("1.2.3", "Deny", Some(true)), ("1.2.2", "Allow", Some(false))] {
                    out.push(cell("my-crate", "1.2.3", cfg, r, u, p, "mapkey", "none", want));
                }
            }
        }
        // malformed extensions: never substituted, always generated
        for m in ["bad-req", "bad-req-op", "path-other-crate", "path-prefix-sharing", "path-prefix-of-crate", "path-no-sep", "missing-version", "missing-path", "missing-crate", "version-number", "not-an-object", "parameters-object"] {
            for cfg in ["absent", "*", "!", "1.2.3"] {
                for u in unknowns {
                    for s in sites {
                        for r in renames {
                            out.push(cell("my-crate", "1.2.3", cfg, r, u, 1, s, m, Some(true)));
                        }
                        out.push(cell("plain", "1.2.3", cfg, None, u, 0, s, m, Some(true)));
                    }
                }
            }
        }
        out
    }
    fn prepare(&self, cell_v: &Value) -> Unit {
        let Some(b) = build(cell_v) else { return invalid_unit("not a C13 cell".into()) };
        let mut unit = Unit::default();
        unit.nontrivial = true;
        let mut ing = ingest::ingest(&b.case);
        unit.outcome = ing.outcome.clone();
        unit.message = ing.message.clone();
        let malformed = cell_v["malformed"].as_str().unwrap_or("none") != "none";
        if ing.outcome != Outcome::Ok {
            if ing.outcome != Outcome::Invalid {
                let sym = if malformed { "malformed-not-generated" } else { "ingest-failed" };
                unit.violations.push(Violation::new(sym, format!("cell {} : {:?} {}", cell_v, ing.outcome, ing.message)));
            }
            return unit;
        }
        let ids = ingest::resolve_roots(&mut ing, &b.case);
        let Some(Some(hid)) = ids.first() else {
            unit.violations.push(Violation::new("ingest-failed", "Holder does not resolve"));
            return unit;
        };
        let Some(holder) = ingest::fact_of(&ing.space, hid) else { return unit };
        let Some(p) = holder.props.iter().find(|p| p.name == "p") else {
            unit.violations.push(Violation::new("observe-failed", format!("Holder has no property: {:?}", holder)));
            return unit;
        };
        // follow array item / transparent newtype through the API
        let mut observed = p.type_ident.replace(' ', "").replace(",>", ">");
        let site = cell_v["site"].as_str().unwrap_or("");
        let all = ingest::all_facts(&ing.space);
        let mut via_newtype = false;
        if site == "mapkey" {
            // Map<K, i64>: the key type is what is observed; the schema's own structure plays no part
            let key = observed.find('<').and_then(|i| observed[i + 1..].strip_suffix(",i64>").map(|k| k.to_string()));
            let mut sink = vec![];
            let _ = render_checked(&ing, &mut sink);
            unit.violations.extend(sink);
            match key {
                Some(k) if b.substitute => {
                    if k != b.expected_path {
                        unit.violations.push(Violation::new("substitution-expected", format!("cell {}: expected the map key to be typed {} but the API says {}", cell_v, b.expected_path, p.type_ident)));
                    }
                }
                Some(k) => {
                    if k.starts_with("::") && k.contains("::Thing") {
                        unit.violations.push(Violation::new("substitution-unexpected", format!("cell {}: the key schema must be generated, but the API types the map as {}", cell_v, p.type_ident)));
                    }
                }
                None => unit.violations.push(Violation::new("observe-failed", format!("cell {}: map-typed property reported as {}", cell_v, p.type_ident))),
            }
            return unit;
        }
        if site == "item" {
            // Vec<T>
            if let Some(inner) = observed.strip_prefix("::std::vec::Vec<").and_then(|s| s.strip_suffix('>')) {
                observed = inner.to_string();
            }
        }
        if site == "def_diff" && observed == b.def_name {
            if let Some(f) = all.iter().find(|f| f.kind == "newtype" && f.name == b.def_name) {
                if let Some((_, inner_ident)) = &f.inner {
                    observed = inner_ident.replace(' ', "").replace(",>", ">");
                    via_newtype = true;
                }
            }
        }
        let mut sink = vec![];
        let rendered = render_checked(&ing, &mut sink);
        unit.violations.extend(sink);
        let Some(r) = rendered else { return unit };
        let structure_emitted = r.index.items.values().any(|it| it.fields.iter().any(|f| f.ident.as_deref() == Some(MARKER_FIELD)));
        if b.substitute {
            if observed != b.expected_path {
                unit.violations.push(Violation::new("substitution-expected", format!("cell {}: expected the property to be typed {} but the API says {} (via newtype: {})", cell_v, b.expected_path, p.type_ident, via_newtype)));
            }
            if structure_emitted {
                unit.violations.push(Violation::new("structure-still-generated", format!("cell {}: substituted, yet a struct with the schema's own field is emitted", cell_v)));
            }
            if site == "def_diff" && !via_newtype && observed == b.expected_path {
                // allowed: the path stands directly for the schema
            }
            // the sibling use keeps its own parameters
            if let Some((name, want)) = &b.sibling_expected {
                let got = holder.props.iter().find(|q| &q.name == name).map(|q| q.type_ident.replace(' ', "").replace(",>", ">")).unwrap_or_default();
                if &got != want {
                    unit.violations.push(Violation::new("substitution-expected", format!("cell {}: sibling property {} expected {} but the API says {}", cell_v, name, want, got)));
                }
            }
        } else {
            if observed.starts_with("::") && observed.contains("::Thing") {
                unit.violations.push(Violation::new("substitution-unexpected", format!("cell {}: the schema must be generated, but the API types the property as {}", cell_v, p.type_ident)));
            }
            if !structure_emitted {
                unit.violations.push(Violation::new("structure-not-generated", format!("cell {}: not substituted, yet no struct with the schema's own field is emitted", cell_v)));
            }
        }
        unit
    }
    fn in_domain(&self, case: &Value) -> bool {
        // cells are atomic: only the enumerated ones are in the domain
        build(case).is_some()
            && case.get("expect_match").is_some()
            && matches!(case["site"].as_str(), Some("property") | Some("item") | Some("def_same") | Some("def_diff") | Some("mapkey"))
            && matches!(case["crate"].as_str(), Some("my-crate") | Some("plain"))
            && matches!(case["unknown"].as_str(), Some("Generate") | Some("Allow") | Some("Deny"))
            && (case["rename"].is_null() || matches!(case["rename"].as_str(), Some("other") | Some("oth-er")))
            && case["params"].as_u64().map(|p| p < 4).unwrap_or(false)
            && {
            // the (req, cfg, expect) triple must come from the table or be a non-version configuration
            let cfg = case["cfg"].as_str().unwrap_or("");
            let req = case["req"].as_str().unwrap_or("");
            matches!(cfg, "absent" | "*" | "!") || TABLE.iter().any(|(r, v, w)| *r == req && *v == cfg && case["expect_match"].as_bool() == Some(*w)) || case["malformed"].as_str() != Some("none")
        }
    }
    fn predicate(&self, name: &str, case: &Value, v: &Violation) -> bool {
        super::predicates::check(name, case, v)
    }
}
