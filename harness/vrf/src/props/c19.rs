//! C19 -- every generated type is public and carries the promised trait surface.

use super::common::*;
use crate::case::*;
use crate::compile::{CompileStatus, ProbeResult};
use crate::engine::*;
use crate::gen::{self, schema as gs, G};
use crate::ingest::{self, Outcome};
use crate::py::Py;
use serde_json::{json, Value};

pub struct C19;

pub fn gen_c19_case(g: &mut G) -> Value {
    let cfg = if g.chance(2, 3) { gs::Cfg::faithful() } else { gs::Cfg::wide() };
    let mut doc = gs::document(g, &cfg);
    // shapes whose trait surface is special-cased: unions of data-less alternatives under every
    // tagging, string newtypes, and types holding a floating-point number
    if g.chance(1, 3) {
        doc["definitions"]["SurfaceExternalUnits"] = json!({"type": "string", "enum": ["north", "south", "east"]});
        doc["definitions"]["SurfaceInternalUnits"] = json!({"oneOf": [
            {"type": "object", "properties": {"kind": {"type": "string", "enum": ["start"]}}, "required": ["kind"]},
            {"type": "object", "properties": {"kind": {"type": "string", "enum": ["stop"]}}, "required": ["kind"]}]});
        doc["definitions"]["SurfaceAdjacentUnits"] = json!({"oneOf": [
            {"type": "object", "properties": {"tag": {"type": "string", "enum": ["on"]}}, "required": ["tag"]},
            {"type": "object", "properties": {"tag": {"type": "string", "enum": ["off"]}, "content": {"type": "integer"}}, "required": ["tag", "content"]}]});
        doc["definitions"]["SurfacePlainString"] = json!({"type": "string"});
        doc["definitions"]["SurfaceShortString"] = json!({"type": "string", "maxLength": 5});
        doc["definitions"]["SurfaceWithFloat"] = json!({"type": "object", "properties": {"ratio": {"type": "number"}, "units": {"$ref": "#/definitions/SurfaceExternalUnits"}}, "required": ["ratio"]});
        // bare aliases that close a containment cycle, sorting after / before the struct they name
        doc["definitions"]["SurfaceNode"] = json!({"type": "object", "properties": {"next": {"$ref": "#/definitions/SurfaceNodeRef"}, "v": {"type": "integer"}}});
        doc["definitions"]["SurfaceNodeRef"] = json!({"$ref": "#/definitions/SurfaceNode"});
        doc["definitions"]["SurfaceZed"] = json!({"type": "object", "properties": {"next": {"$ref": "#/definitions/SurfaceAlias"}, "v": {"type": "integer"}}});
        doc["definitions"]["SurfaceAlias"] = json!({"$ref": "#/definitions/SurfaceZed"});
        doc["definitions"]["SurfaceFloatEnum"] = json!({"oneOf": [{"type": "number"}, {"type": "string", "enum": ["auto"]}]});
    }
    let settings = settings(g, &doc, true);
    let case = Case { settings, history: history(g, &doc), ..Default::default() };
    gen::to_value(&case)
}

/// is gen.rs line `line` inside a `#[derive(...)]` attribute?
fn in_derive(gen_rs: &str, line: usize) -> bool {
    let lines: Vec<&str> = gen_rs.lines().collect();
    let mut i = line.min(lines.len()).saturating_sub(1);
    for _ in 0..14 {
        let l = lines.get(i).copied().unwrap_or("").trim_start();
        if l.starts_with("#[derive(") {
            return true;
        }
        if l.starts_with("pub ") || l.starts_with("impl ") || l.starts_with("///") || l.starts_with("#[serde") {
            return false;
        }
        if i == 0 {
            return false;
        }
        i -= 1;
    }
    false
}

impl Property for C19 {
    fn id(&self) -> &'static str {
        "C19"
    }
    fn rule(&self) -> String {
        "documents from the faithful and wide grammars x settings (builder, map type, global PartialEq derive, type_mod) x ingestion histories; for every named type the introspection API yields one bound assertion per line is compiled against the output: Debug + Clone + Serialize + DeserializeOwned + From<&T>, plus Copy/Eq/Ord/Hash/PartialEq/PartialOrd for data-less enums and Eq/Ord/Hash/PartialEq/PartialOrd for newtypes over String; plus a syn visibility scan; non-trivial = >=3 named types of >=2 kinds; distinct by canonical JSON".into()
    }
    fn assumptions(&self) -> Vec<String> {
        vec!["which types are data-less enums / string newtypes is read from the introspection API".into(), "a non-public field is accepted only on tuple newtypes that offer no From<Inner> (validated constructors)".into()]
    }
    fn fuzz_gen(&self, g: &mut G) -> Option<Value> {
        Some(gen_c19_case(g))
    }
    fn generate(&self, tier: Tier, seed: u64) -> Vec<Value> {
        gen::draw(seed, "C19", tier.pick(600, 12000), gen_c19_case)
    }
    fn prepare(&self, case_v: &Value) -> Unit {
        let case = match parse_case(case_v) {
            Ok(c) => c,
            Err(e) => return invalid_unit(e),
        };
        let mut unit = Unit::default();
        let ing = ingest::ingest(&case);
        unit.outcome = ing.outcome.clone();
        unit.message = ing.message.clone();
        if ing.outcome != Outcome::Ok {
            return unit;
        }
        let mut sink = vec![];
        let Some(r) = render_checked(&ing, &mut sink) else { return unit };
        let facts = ingest::all_facts(&ing.space);
        let mut drv = Driver::new();
        let mut asserts: Vec<(String, String)> = vec![];
        let mut kinds = std::collections::BTreeSet::new();
        let mut named = 0;
        let by_kind_string: std::collections::BTreeSet<String> = facts.iter().filter(|f| f.kind == "string").map(|f| f.ident.clone()).collect();
        let _ = by_kind_string;
        for f in &facts {
            if !matches!(f.kind.as_str(), "struct" | "enum" | "newtype") {
                continue;
            }
            named += 1;
            kinds.insert(f.kind.clone());
            drv.assert_lines.push(format!("crate::rt::assert_base::<{}>();", f.ident));
            asserts.push((f.ident.clone(), "Debug + Clone + Serialize + DeserializeOwned + From<&T>".into()));
            if f.kind == "enum" && !f.variants.is_empty() && f.variants.iter().all(|v| v.shape == "simple") {
                drv.assert_lines.push(format!("crate::rt::assert_simple_enum::<{}>();", f.ident));
                asserts.push((f.ident.clone(), "Copy + Eq + Ord + Hash + PartialEq + PartialOrd (data-less enum)".into()));
            }
            if f.kind == "newtype" && f.inner.as_ref().map(|(_, i)| i.replace(' ', "") == "::std::string::String").unwrap_or(false) {
                drv.assert_lines.push(format!("crate::rt::assert_string_newtype::<{}>();", f.ident));
                asserts.push((f.ident.clone(), "Eq + Ord + Hash + PartialEq + PartialOrd (newtype over String)".into()));
            }
            // static: public item, public fields
            match r.index.items.get(&f.name) {
                None => unit.violations.push(Violation::new("type-without-item", format!("the API yields {} but the output has no such item", f.name))),
                Some(item) => {
                    if !item.is_pub {
                        unit.violations.push(Violation::new("item-not-public", format!("{} is not pub", f.name)));
                    }
                    let inner_ty = item.fields.first().map(|x| x.ty.clone()).unwrap_or_default();
                    let unchecked_from = r.index.impls.iter().any(|i| i.self_ty == f.name && i.trait_ == format!("::std::convert::From<{inner_ty}>"));
                    for fl in &item.fields {
                        if !fl.is_pub && (item.kind == "struct" || unchecked_from) {
                            unit.violations.push(Violation::new("field-not-public", format!("{}.{:?} is not pub", f.name, fl.ident)));
                        }
                    }
                }
            }
        }
        unit.nontrivial = named >= 3 && kinds.len() >= 2;
        let (m, keys) = module(&case.settings.type_mod, r.text, &drv);
        unit.module = Some(m);
        unit.info = json!({"asserts": asserts, "drv_keys": keys});
        let mut seen = std::collections::BTreeSet::new();
        unit.violations.retain(|v| seen.insert(v.symptom.clone()));
        unit
    }
    fn judge(&self, _case: &Value, unit: &Unit, compile: &CompileStatus, _probes: &[ProbeResult], _py: &mut Py) -> Result<Judged, String> {
        let mut j = Judged::default();
        if let CompileStatus::Failed(diags) = compile {
            let keys: Vec<(usize, String)> = serde_json::from_value(unit.info["drv_keys"].clone()).unwrap_or_default();
            let asserts: Vec<(String, String)> = serde_json::from_value(unit.info["asserts"].clone()).unwrap_or_default();
            let gen_rs = unit.module.as_ref().map(|m| m.gen_rs.as_str()).unwrap_or("");
            // errors of the generated module outside derive lists are C01's subject; bound
            // assertions that fail next to them are their consequence, not a finding of their own
            let gen_broken_elsewhere = diags.iter().any(|d| d.file == "gen" && !in_derive(gen_rs, d.line));
            let mut gen_other = false;
            for d in diags {
                if gen_broken_elsewhere && d.file == "drv" {
                    gen_other = true;
                    continue;
                }
                if d.file == "drv" {
                    match keys.iter().find(|(l, _)| *l == d.line).and_then(|(_, k)| k.strip_prefix("assert:")).and_then(|i| i.parse::<usize>().ok()).and_then(|i| asserts.get(i)) {
                        Some((ty, what)) => j.violations.push(Violation::new("promised-trait-missing", format!("{ty}: {what} -- {} {}", d.code, d.message))),
                        None => return Err(format!("harness driver does not compile: {} {} | {}", d.code, d.message, d.snippet)),
                    }
                } else if d.file == "gen" && in_derive(gen_rs, d.line) {
                    j.violations.push(Violation::new("derive-not-derivable", format!("{} {} | {}", d.code, d.message, d.snippet)));
                } else {
                    gen_other = true;
                }
            }
            if j.violations.is_empty() && gen_other {
                *j.counters.entry("not_evaluated_uncompilable".into()).or_default() += 1;
            }
        }
        if matches!(compile, CompileStatus::Ok) {
            *j.counters.entry("assertions_compiled".into()).or_default() += unit.info["asserts"].as_array().map(|a| a.len() as u64).unwrap_or(0);
        }
        let mut seen = std::collections::BTreeSet::new();
        j.violations.retain(|v| seen.insert(v.symptom.clone()));
        Ok(j)
    }
    fn in_domain(&self, case: &Value) -> bool {
        case_settings_in_domain(case)
    }
    fn predicate(&self, name: &str, case: &Value, v: &Violation) -> bool {
        super::predicates::check(name, case, v)
    }
}
