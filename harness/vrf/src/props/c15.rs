//! C15 -- macro, cargo subcommand and builder generate the same types.
//! The builder (in-process, settings translated by the documented meaning of
//! each option) is the reference.

use super::c12::run_cli_full;
use super::common::*;
use crate::case::*;
use crate::engine::*;
use crate::gen::{self, schema as gs, G};
use crate::ingest::{self, Outcome};
use quote::ToTokens;
use serde_json::{json, Map, Value};

pub struct C15;

const CRATE_NAMES: &[&str] = &["plain", "my-crate", "my_crate", "a2b", "x3", "crate-9-x"];

fn annotated_def(crate_name: &str, req: &str, idx: usize) -> Value {
    json!({"type": "object", "properties": {format!("marker{idx}"): {"type": "string"}}, "x-rust-type": {"crate": crate_name, "version": req, "path": format!("{}::things::Thing{idx}", crate_name.replace('-', "_"))}})
}

pub fn gen_cli_case(g: &mut G) -> Value {
    let mut cfg = gs::Cfg::faithful();
    cfg.max_defs = 3;
    let mut doc = gs::document(g, &cfg);
    let mut settings = Settings::default();
    settings.struct_builder = true; // the CLI's documented default
    let mut args: Vec<String> = vec![];
    match g.below(5) {
        0 => args.push("--builder".into()),
        1 => args.push("-b".into()),
        2 => {
            args.push("--no-builder".into());
            settings.struct_builder = false;
        }
        3 => {
            args.push("-B".into());
            settings.struct_builder = false;
        }
        _ => {}
    }
    let nd = g.weighted(&[3, 3, 2, 1]);
    let mut pool = vec!["PartialEq", "schemars::JsonSchema", "::my_derives::Thing", "Eq"];
    g.shuffle(&mut pool);
    for d in pool.into_iter().take(nd) {
        args.push(if g.chance(1, 2) { "--additional-derive".into() } else { "-a".into() });
        args.push(d.to_string());
        settings.derives.push(d.to_string());
    }
    if g.chance(1, 3) {
        let m = *g.pick(&["::std::collections::BTreeMap", "::indexmap::IndexMap", "std::collections::BTreeMap"]);
        args.push("--map-type".into());
        args.push(m.to_string());
        settings.map_type = Some(m.to_string());
    }
    // crates with x-rust-type users in the document
    let nc = g.weighted(&[2, 3, 2]);
    let mut names = CRATE_NAMES.to_vec();
    g.shuffle(&mut names);
    for (i, name) in names.into_iter().take(nc).enumerate() {
        let version = *g.pick(&["1.0.0", "0.3.7", "*", "!", "2.1.0-beta.1"]);
        let rename = if g.chance(1, 3) { Some(*g.pick(&["other", "re-named", "r2d2"])) } else { None };
        let spec = match rename {
            Some(r) => format!("{r}={name}@{version}"),
            None => format!("{name}@{version}"),
        };
        args.push("--crate".into());
        args.push(spec);
        settings.crates.insert(name.to_string(), CrateCfg { version: version.to_string(), rename: rename.map(|r| r.to_string()) });
        let req = *g.pick(&["1.0.0", "^0.3", ">=0.1.0, <3.0.0", "*"]);
        doc["definitions"][format!("Ext{i}")] = annotated_def(name, req, i);
        doc["definitions"][format!("ExtUser{i}")] = json!({"type": "object", "properties": {"held": {"$ref": format!("#/definitions/Ext{i}")}}, "required": ["held"]});
    }
    if g.chance(1, 2) {
        doc["definitions"]["ExtUnknown"] = annotated_def("unlisted", "1.0.0", 9);
        doc["definitions"]["ExtUnknownUser"] = json!({"type": "object", "properties": {"held": {"$ref": "#/definitions/ExtUnknown"}}, "required": ["held"]});
    }
    if g.chance(1, 2) {
        let p = *g.pick(&["generate", "allow", "deny"]);
        args.push("--unknown-crates".into());
        args.push(p.to_string());
        settings.unknown_crates = Some(match p {
            "allow" => "Allow",
            "deny" => "Deny",
            _ => "Generate",
        }
        .to_string());
    }
    let io = *g.pick(&["default", "default", "stdout", "explicit", "explicit-short"]);
    let stale = g.chance(1, 3);
    json!({"front": "cli", "doc": doc, "args": args, "settings": settings, "io": io, "stale_output": stale, "features": if args.is_empty() { vec![] } else { vec!["non-default-options"] }})
}

/// a document whose conversion fails (the CLI must write nothing)
pub fn gen_cli_failing_case(g: &mut G) -> Value {
    let bad = match g.below(3) {
        0 => json!({"definitions": {"Bad": {"type": "string", "pattern": "(unclosed"}}}),
        1 => json!({"definitions": {"Bad": {"type": "integer", "format": "uint8", "default": 300}}}),
        _ => json!({"definitions": {"Bad": {"type": "string", "enum": []}}}),
    };
    let io = *g.pick(&["default", "explicit"]);
    json!({"front": "cli-fail", "doc": bad, "args": [], "settings": Settings { struct_builder: true, ..Default::default() }, "io": io, "features": ["failing-conversion"]})
}

/// token text of each item, up to formatting: a comma directly before a
/// closing delimiter (rustfmt adds them when it wraps a list) is dropped
fn strip_trailing_commas(ts: proc_macro2::TokenStream) -> proc_macro2::TokenStream {
    use proc_macro2::{Group, TokenTree};
    let mut toks: Vec<TokenTree> = ts
        .into_iter()
        .map(|t| match t {
            TokenTree::Group(g) => {
                let mut ng = Group::new(g.delimiter(), strip_trailing_commas(g.stream()));
                ng.set_span(g.span());
                TokenTree::Group(ng)
            }
            other => other,
        })
        .collect();
    if let Some(TokenTree::Punct(p)) = toks.last() {
        if p.as_char() == ',' {
            toks.pop();
        }
    }
    toks.into_iter().collect()
}

fn items_of(file: &syn::File) -> Vec<String> {
    file.items.iter().map(|i| strip_trailing_commas(i.to_token_stream()).to_string().replace(", >", ">")).collect()
}

fn first_difference(a: &[String], b: &[String]) -> String {
    for (i, (x, y)) in a.iter().zip(b.iter()).enumerate() {
        if x != y {
            let p = x.bytes().zip(y.bytes()).position(|(p, q)| p != q).unwrap_or(x.len().min(y.len()));
            let s = p.saturating_sub(60);
            return format!("item {i} differs near: front-end `{}` / builder `{}`", x.chars().skip(s).take(160).collect::<String>(), y.chars().skip(s).take(160).collect::<String>());
        }
    }
    format!("{} items from the front-end vs {} from the builder", a.len(), b.len())
}

impl Property for C15 {
    fn id(&self) -> &'static str {
        "C15"
    }
    fn rule(&self) -> String {
        "CLI: documents from the faithful grammar extended with x-rust-type definitions, x option assignments in the CLI's syntax (both builder flags in long and short form, 0-3 additional derives, map type, 0-2 crates with names containing digits / hyphens / underscores, versions incl. `*`, `!` and pre-releases, renames, unknown-crate policy) x output mode (default path, `-o -`, `-o FILE`, `--output FILE`); the freshly built cargo-typify binary is run in a scratch directory and its file is compared item by item (syn tokens) with the builder's output under the translated settings; failing conversions check that nothing is written; non-trivial = at least one non-default option or a failing conversion; distinct by canonical JSON".into()
    }
    fn assumptions(&self) -> Vec<String> {
        vec![
            "option equivalence is taken from the documentation (the CLI builds the builder interface by default)".into(),
            "items are compared as token streams after syn parsing, so formatting and the CLI's inner lint attributes do not matter".into(),
            "cargo-typify is built from /repo's working tree by the check script".into(),
        ]
    }
    fn timeout(&self) -> std::time::Duration {
        std::time::Duration::from_secs(120)
    }
    fn generate(&self, tier: Tier, seed: u64) -> Vec<Value> {
        let mut v = gen::draw(seed, "C15-cli", tier.pick(70, 1500), gen_cli_case);
        v.extend(gen::draw(seed, "C15-fail", tier.pick(6, 60), gen_cli_failing_case));
        match super::c15m::macro_cases(seed, tier.pick(24, 300)) {
            Ok(m) => v.extend(m),
            Err(e) => {
                eprintln!("INFRA: {e}");
                std::process::exit(2);
            }
        }
        v
    }
    fn prepare(&self, c: &Value) -> Unit {
        let replayed;
        let c = if c["front"] == "macro-replay" {
            // regression replay of a single macro case: run the expansion batch for it
            let mut one = c.clone();
            one["front"] = json!("macro");
            match super::c15m::run_macro_batch(vec![one], &format!("/verif/work/macro-C15-replay-{}", std::process::id())) {
                Ok(mut v) => {
                    replayed = v.remove(0);
                    &replayed
                }
                Err(e) => {
                    let mut unit = Unit::default();
                    unit.outcome = Outcome::Crash;
                    unit.message = format!("HARNESS macro replay: {e}");
                    return unit;
                }
            }
        } else {
            c
        };
        if c["front"] == "macro" {
            // the verdict was established by the expansion batch in generate()
            let mut unit = Unit::default();
            unit.classes.push("front:macro".into());
            unit.nontrivial = c["opts"].as_array().map(|a| !a.is_empty()).unwrap_or(false);
            let detail = c["result"]["detail"].as_str().unwrap_or("").to_string();
            match c["result"]["status"].as_str() {
                Some("equal") => {}
                Some("builder-refuses") => unit.outcome = Outcome::Err,
                Some("differs") => unit.violations.push(Violation::new("macro-items-differ-from-builder", format!("options {}: {detail}", c["opts"]))),
                Some("macro-error") => unit.violations.push(Violation::new("macro-rejects-documented-option", format!("options {}: {detail}", c["opts"]))),
                _ => {
                    unit.outcome = Outcome::Crash;
                    unit.message = format!("HARNESS macro half: {detail}");
                }
            }
            return unit;
        }
        let Ok(settings) = serde_json::from_value::<Settings>(c["settings"].clone()) else { return invalid_unit("settings".into()) };
        let Some(args) = c["args"].as_array().map(|a| a.iter().filter_map(|x| x.as_str().map(|s| s.to_string())).collect::<Vec<_>>()) else { return invalid_unit("args".into()) };
        let doc = &c["doc"];
        let io = c["io"].as_str().unwrap_or("default");
        let front = c["front"].as_str().unwrap_or("");
        let mut unit = Unit::default();
        unit.nontrivial = !args.is_empty() || front == "cli-fail";
        unit.classes.push(format!("io:{io}"));
        // reference: the builder
        let case = Case { settings: settings.clone(), history: vec![Step::Root { doc: doc.clone() }], ..Default::default() };
        let ing = ingest::ingest(&case);
        let text = serde_json::to_string_pretty(doc).unwrap();
        let mut cli_args = args.clone();
        match io {
            "stdout" => cli_args.extend(["-o".to_string(), "-".to_string()]),
            "explicit" => cli_args.extend(["--output".to_string(), "elsewhere.rs".to_string()]),
            "explicit-short" => cli_args.extend(["-o".to_string(), "elsewhere.rs".to_string()]),
            _ => {}
        }
        let sentinel = "// pre-existing content\n";
        // a successful run may find the output file of an earlier (longer) run in its way
        let stale: String = (0..6000).map(|i| format!("pub struct StaleLeftover{i};\n")).collect();
        let pre_existing: Vec<(&str, &str)> = if front == "cli-fail" {
            vec![(if io == "default" { "input.rs" } else { "elsewhere.rs" }, sentinel)]
        } else if c["stale_output"].as_bool() == Some(true) && io != "stdout" {
            vec![(if io == "default" { "input.rs" } else { "elsewhere.rs" }, stale.as_str())]
        } else {
            vec![]
        };
        let run = match run_cli_full(&text, &cli_args, "c15", &pre_existing) {
            Ok(r) => r,
            Err(e) => {
                unit.outcome = Outcome::Crash;
                unit.message = format!("HARNESS cli: {e}");
                return unit;
            }
        };
        let out_name = if io == "default" { "input.rs" } else { "elsewhere.rs" };
        if front == "cli-fail" {
            // the builder refuses it too (otherwise the case is not a failing conversion)
            if ing.outcome == Outcome::Ok {
                unit.nontrivial = false;
                return unit;
            }
            if run.success {
                unit.violations.push(Violation::new("cli-succeeds-where-builder-fails", format!("builder: {} / cli exit 0", ing.message)));
            }
            match run.files.get(out_name) {
                Some(content) if content == sentinel => {}
                Some(content) => unit.violations.push(Violation::new("cli-writes-on-failure", format!("{out_name} was overwritten on a failing conversion: {:?}", content.chars().take(80).collect::<String>()))),
                None => unit.violations.push(Violation::new("cli-writes-on-failure", format!("the pre-existing {out_name} disappeared on a failing conversion"))),
            }
            if run.files.len() > 1 + 1 {
                unit.violations.push(Violation::new("cli-writes-on-failure", format!("files after a failing conversion: {:?}", run.files.keys().collect::<Vec<_>>())));
            }
            return unit;
        }
        unit.outcome = ing.outcome.clone();
        unit.message = ing.message.clone();
        if ing.outcome != Outcome::Ok {
            if run.success {
                unit.violations.push(Violation::new("cli-succeeds-where-builder-fails", format!("builder: {:?} {} / cli exit 0", ing.outcome, ing.message)));
                unit.outcome = Outcome::Ok;
            }
            return unit;
        }
        let Ok((btokens, _)) = ingest::render(&ing.space) else { return unit };
        // "up to formatting": the builder's tokens go through rustfmt as well, so
        // that rustfmt's own rewrites (closure braces, wrapped lists) cancel out
        let bfile = match rustfmt(&btokens.to_string()).and_then(|t| syn::parse_file(&t).map_err(|e| e.to_string())) {
            Ok(f) => f,
            Err(e) => {
                unit.outcome = Outcome::Crash;
                unit.message = format!("HARNESS rustfmt: {e}");
                return unit;
            }
        };
        if !run.success {
            let sym = if run.stderr.contains("crate specifier") || run.stderr.contains("invalid value") { "cli-rejects-valid-option" } else { "cli-fails-where-builder-succeeds" };
            unit.violations.push(Violation::new(sym, format!("args {:?}: {}", cli_args, run.stderr.lines().filter(|l| !l.trim().is_empty()).take(6).collect::<Vec<_>>().join(" | "))));
            return unit;
        }
        // I/O contract
        let produced = match io {
            "stdout" => {
                if run.files.keys().any(|k| k.ends_with(".rs")) {
                    unit.violations.push(Violation::new("cli-output-location", format!("`-o -` must not create a file; found {:?}", run.files.keys().collect::<Vec<_>>())));
                }
                run.stdout.clone()
            }
            _ => {
                if !run.stdout.trim().is_empty() {
                    unit.violations.push(Violation::new("cli-output-location", "output went to stdout although a file was requested".to_string()));
                }
                match run.files.get(out_name) {
                    Some(c) => c.clone(),
                    None => {
                        unit.violations.push(Violation::new("cli-output-location", format!("expected {out_name}; files: {:?}", run.files.keys().collect::<Vec<_>>())));
                        return unit;
                    }
                }
            }
        };
        let cfile = match syn::parse_file(&produced) {
            Ok(f) => f,
            Err(e) => {
                unit.violations.push(Violation::new("cli-output-does-not-parse", e.to_string()));
                return unit;
            }
        };
        let (a, b) = (items_of(&cfile), items_of(&bfile));
        if a != b {
            unit.violations.push(Violation::new("cli-items-differ-from-builder", format!("args {:?}: {}", cli_args, first_difference(&a, &b))));
        }
        unit
    }
    fn shrinks(&self, c: &Value) -> bool {
        // macro invocations are rendered into a crate of their own: not shrunk
        c["front"] != "macro"
    }
    fn in_domain(&self, c: &Value) -> bool {
        // option lists are atomic (an option and its value belong together);
        // only the document shrinks
        if c["front"] == "macro" {
            return c["opts"].is_array() && c["doc"].is_object();
        }
        c["front"].is_string() && c["args"].is_array() && c["doc"].is_object() && {
            let args: Vec<&str> = c["args"].as_array().map(|a| a.iter().filter_map(|x| x.as_str()).collect()).unwrap_or_default();
            let mut i = 0;
            let mut ok = true;
            while i < args.len() {
                match args[i] {
                    "--builder" | "-b" | "--no-builder" | "-B" => i += 1,
                    "--additional-derive" | "-a" | "--map-type" | "--crate" | "--unknown-crates" => {
                        if i + 1 >= args.len() || args[i + 1].starts_with('-') {
                            ok = false;
                        } else if args[i] == "--unknown-crates" && !matches!(args[i + 1], "generate" | "allow" | "deny") {
                            ok = false;
                        } else if args[i] == "--crate" && !valid_crate_spec(args[i + 1]) {
                            ok = false;
                        } else if (args[i] == "-a" || args[i] == "--additional-derive" || args[i] == "--map-type") && syn::parse_str::<syn::Path>(args[i + 1]).is_err() {
                            ok = false;
                        }
                        i += 2;
                    }
                    _ => {
                        ok = false;
                        i += 1;
                    }
                }
            }
            ok && settings_match_args(&args, &c["settings"])
        }
    }
    fn predicate(&self, name: &str, case: &Value, v: &Violation) -> bool {
        super::predicates::check(name, case, v)
    }
}

/// the recorded settings must be the documented translation of the args
fn settings_match_args(args: &[&str], settings: &Value) -> bool {
    let mut want = Settings { struct_builder: true, ..Default::default() };
    let mut i = 0;
    while i < args.len() {
        match args[i] {
            "--no-builder" | "-B" => want.struct_builder = false,
            "--additional-derive" | "-a" => want.derives.push(args[i + 1].to_string()),
            "--map-type" => want.map_type = Some(args[i + 1].to_string()),
            "--unknown-crates" => {
                want.unknown_crates = Some(match args[i + 1] {
                    "allow" => "Allow",
                    "deny" => "Deny",
                    _ => "Generate",
                }
                .to_string())
            }
            "--crate" => {
                let spec = args[i + 1];
                let (rename, rest) = match spec.split_once('=') {
                    Some((r, rest)) => (Some(r.to_string()), rest),
                    None => (None, spec),
                };
                let Some((name, version)) = rest.split_once('@') else { return false };
                want.crates.insert(name.to_string(), CrateCfg { version: version.to_string(), rename });
            }
            _ => {}
        }
        i += if matches!(args[i], "--builder" | "-b" | "--no-builder" | "-B") { 1 } else { 2 };
    }
    serde_json::from_value::<Settings>(settings.clone()).map(|s| s == want).unwrap_or(false)
}

#[allow(dead_code)]
fn unused(_: Map<String, Value>) {}

/// `name@version` or `rename=name@version`: names of letters, digits, '-', '_'
/// (non-empty), version `*`, `!` or a semver version
fn valid_crate_spec(spec: &str) -> bool {
    let name_ok = |n: &str| !n.is_empty() && n.chars().all(|c| c.is_ascii_alphanumeric() || c == '-' || c == '_');
    let (rename, rest) = match spec.split_once('=') {
        Some((r, rest)) => (Some(r), rest),
        None => (None, spec),
    };
    let Some((name, version)) = rest.split_once('@') else { return false };
    rename.map(name_ok).unwrap_or(true) && name_ok(name) && (version == "*" || version == "!" || semver::Version::parse(version).is_ok())
}

fn rustfmt(text: &str) -> Result<String, String> {
    use std::io::Write;
    use std::process::{Command, Stdio};
    let mut child = Command::new("rustfmt").arg("--edition=2018").stdin(Stdio::piped()).stdout(Stdio::piped()).stderr(Stdio::piped()).spawn().map_err(|e| format!("rustfmt: {e}"))?;
    let mut stdin = child.stdin.take().unwrap();
    let input = text.to_string();
    let w = std::thread::spawn(move || {
        let _ = stdin.write_all(input.as_bytes());
    });
    let out = child.wait_with_output().map_err(|e| e.to_string())?;
    let _ = w.join();
    if out.status.success() {
        String::from_utf8(out.stdout).map_err(|e| e.to_string())
    } else {
        Err(String::from_utf8_lossy(&out.stderr).chars().take(500).collect())
    }
}
