//! Shared machinery of the value-level properties (C02, C03, C05, ...):
//! schema + instances -> compiled type -> probe results -> python verdicts.

use super::common::*;
use crate::analyse::Index;
use crate::case::*;
use crate::compile::{CompileStatus, ProbeResult};
use crate::engine::*;
use crate::gen::instance::{mutants, Inst};
use crate::gen::{self, schema as gs, G};
use crate::ingest::{self, Outcome};
use crate::py::Py;
use serde_json::{json, Value};

/// Generate (document, roots, probes).
pub fn gen_value_case(g: &mut G, cfg: &gs::Cfg, op: &str, n_valid: usize, n_mut: usize, source: &str) -> Value {
    let doc = gs::document(g, cfg);
    let mut doc = doc;
    // value properties address definitions only
    if let Some(o) = doc.as_object_mut() {
        let keep: Vec<String> = vec!["definitions".into(), "$schema".into()];
        o.retain(|k, _| keep.contains(k));
    }
    if op == "rt" {
        // KF-004 (optional cyclic member serialises `null`) avoided by construction
        let n = gs::make_optional_cyclic_refs_nullable(&mut doc);
        gen::excluded("optional-cyclic-ref-made-nullable", n);
        // schema defaults on optional scalar / container properties
        add_property_defaults(g, &mut doc);
        // an untagged union of a closed object and a larger open one that extends it
        if g.chance(1, 4) {
            let names = crate::gen::names::benign_props(g, 3);
            if names.len() == 3 {
                let small = json!({"type": "object", "properties": {names[0].clone(): {"type": "string"}, names[1].clone(): {"type": "string"}}, "required": [names[0].clone()], "additionalProperties": false});
                let large = json!({"type": "object", "properties": {names[0].clone(): {"type": "string"}, names[1].clone(): {"type": "string"}, names[2].clone(): {"type": "integer"}}, "required": [names[0].clone(), names[2].clone()]});
                doc["definitions"]["StrictThenLarger"] = json!({"oneOf": [small, large]});
            }
        }
        // a tuple whose positions are different in-line objects with optional members only
        if g.chance(1, 4) {
            let names = crate::gen::names::benign_props(g, 4);
            if names.len() == 4 {
                let a = json!({"type": "object", "properties": {names[0].clone(): {"type": "integer"}, names[1].clone(): {"type": "integer"}}});
                let b = json!({"type": "object", "properties": {names[2].clone(): {"type": "string"}, names[3].clone(): {"type": "integer"}}});
                let tuple = json!({"type": "array", "items": [a, b], "minItems": 2, "maxItems": 2});
                doc["definitions"]["TupleOfOpenObjects"] = if g.chance(1, 2) { tuple } else { json!({"type": "object", "properties": {"ends": tuple}, "required": ["ends"]}) };
            }
        }
    }
    let names = gs::def_names(&doc);
    let mut roots = vec![];
    let mut probes = vec![];
    for (ri, n) in names.iter().enumerate() {
        roots.push(RootSel::Ref { r: format!("#/definitions/{n}") });
        let schema = doc["definitions"][n].clone();
        let mut inst = Inst::new(&doc);
        for k in 0..n_valid {
            inst.boundary = k % 3 == 2;
            let mut v = inst.gen(g, &schema, 3);
            if op == "rt" && k % 4 == 3 {
                // members present with their empty values ({} / [] / ""), next to schema defaults
                empty_some_members(g, &mut v);
            }
            let tag = if inst.boundary { "boundary" } else { "valid-by-construction" };
            if n_mut > 0 && k < 2 {
                for (t, m) in mutants(g, &v, n_mut) {
                    probes.push(Probe { root: ri, op: op.into(), arg: m, tag: t });
                }
            }
            probes.push(Probe { root: ri, op: op.into(), arg: v, tag: tag.into() });
        }
    }
    // de-duplicate probes
    let mut seen = std::collections::BTreeSet::new();
    probes.retain(|p| seen.insert((p.root, p.arg.to_string())));
    let case = Case {
        settings: Settings::default(),
        history: vec![Step::Root { doc }],
        roots,
        probes,
        extra: json!({"source": source}),
        ..Default::default()
    };
    gen::to_value(&case)
}

/// Facts the judges need about each root.
pub struct Prepared {
    pub unit: Unit,
    pub index: Option<Index>,
    pub root_idents: Vec<Option<String>>,
}

/// Ingest, render, emit a driver with one arm per (root, op in `ops`).
/// `ops`: (op name, rt helper, required impl check) -- the helper is only
/// emitted when `want(root ident, op)` says the type offers it.
pub fn prepare_values(case_v: &Value, want: &dyn Fn(&Index, &crate::ingest::TypeFact, &str) -> Option<&'static str>, ops: &[&str]) -> Prepared {
    let case = match parse_case(case_v) {
        Ok(c) => c,
        Err(e) => return Prepared { unit: invalid_unit(e), index: None, root_idents: vec![] },
    };
    let mut unit = Unit::default();
    let mut ing = ingest::ingest(&case);
    unit.outcome = ing.outcome.clone();
    unit.message = ing.message.clone();
    if ing.outcome != Outcome::Ok {
        return Prepared { unit, index: None, root_idents: vec![] };
    }
    let ids = ingest::resolve_roots(&mut ing, &case);
    let mut sink = vec![];
    let Some(r) = render_checked(&ing, &mut sink) else {
        // C01's subject; here: not evaluated
        unit.counters.insert("not_evaluated_render_failed".into(), 1);
        return Prepared { unit, index: None, root_idents: vec![] };
    };
    let mut drv = Driver::new();
    let mut root_idents = vec![];
    let mut root_facts = vec![];
    for (ri, id) in ids.iter().enumerate() {
        let fact = id.as_ref().and_then(|id| ingest::fact_of(&ing.space, id));
        match fact {
            Some(f) => {
                for op in ops {
                    if let Some(helper) = want(&r.index, &f, op) {
                        drv.arm(ri, op, helper, &f.ident);
                    }
                }
                root_idents.push(Some(f.ident.clone()));
                root_facts.push(serde_json::to_value(&f).unwrap());
            }
            None => {
                root_idents.push(None);
                root_facts.push(Value::Null);
            }
        }
    }
    let armed: std::collections::BTreeSet<(usize, String)> = drv.arms.iter().map(|(r, o, _)| (*r, o.clone())).collect();
    let needs_str = |op: &str| matches!(op, "parse" | "try_from_str" | "try_from_ref_string" | "try_from_string");
    unit.probes = case.probes.iter().filter(|p| armed.contains(&(p.root, p.op.clone())) && (!needs_str(&p.op) || p.arg.is_string())).cloned().collect();
    let (m, keys) = module(&case.settings.type_mod, r.text, &drv);
    unit.module = Some(m);
    unit.info = json!({"roots": root_facts, "drv_keys": keys});
    Prepared { unit, index: Some(r.index), root_idents }
}

/// de/rt for every root (all generated types are serde types)
pub fn want_serde(_ix: &Index, _f: &crate::ingest::TypeFact, op: &str) -> Option<&'static str> {
    match op {
        "de" => Some("de"),
        "rt" => Some("rt"),
        _ => None,
    }
}

/// Classify the probes of a case with python: per probe Some(valid) / None.
pub fn classify(case: &Case, probes: &[Probe], py: &mut Py) -> Result<Vec<Option<bool>>, String> {
    let doc = history_document(case);
    let mut out: Vec<Option<bool>> = probes.iter().map(|_| None).collect();
    for (ri, root) in case.roots.iter().enumerate() {
        let RootSel::Ref { r } = root else { continue };
        let idx: Vec<usize> = probes.iter().enumerate().filter(|(_, p)| p.root == ri).map(|(i, _)| i).collect();
        if idx.is_empty() {
            continue;
        }
        let insts: Vec<Value> = idx.iter().map(|i| probes[*i].arg.clone()).collect();
        let verdicts = py.validate(&doc, Some(r), &insts)?;
        for (i, v) in idx.into_iter().zip(verdicts) {
            out[i] = v;
        }
    }
    Ok(out)
}

/// Compile status handling shared by value properties: Ok(true) = evaluate,
/// Ok(false) = not evaluated (uncompilable, C01's subject), Err = infra.
pub fn compiled_ok(compile: &CompileStatus, j: &mut Judged) -> Result<bool, String> {
    match compile {
        CompileStatus::Ok => Ok(true),
        CompileStatus::NotCompiled => Ok(false),
        CompileStatus::Failed(diags) => {
            if diags.iter().all(|d| d.file != "gen") {
                let d = &diags[0];
                return Err(format!("harness driver does not compile: {} {} | {}", d.code, d.message, d.snippet));
            }
            *j.counters.entry("not_evaluated_uncompilable".into()).or_default() += 1;
            Ok(false)
        }
    }
}

pub fn structured(v: &Value) -> bool {
    match v {
        Value::Object(o) => !o.is_empty(),
        Value::Array(a) => !a.is_empty(),
        _ => false,
    }
}

pub fn probe_infra(r: &ProbeResult) -> Option<String> {
    match r {
        ProbeResult::Crash(m) => Some(m.clone()),
        _ => None,
    }
}

/// Domain check shared by the F-based value properties: one root step whose
/// definitions are all inside F, roots resolve, default settings.
pub fn value_case_in_faithful(case_v: &Value) -> bool {
    let Ok(case) = parse_case(case_v) else { return false };
    if case.history.len() != 1 || case.settings != Settings::default() {
        return false;
    }
    let Step::Root { doc } = &case.history[0] else { return false };
    // property `default`s (used by C03) are annotations as far as the fragment goes
    if !gs::doc_in_faithful(&strip_defaults(doc)) {
        return false;
    }
    let names = gs::def_names(doc);
    case.roots.iter().all(|r| matches!(r, RootSel::Ref { r } if r.strip_prefix("#/definitions/").map(|n| names.iter().any(|d| d == n)).unwrap_or(false)))
}

/// Attach a (valid, non-empty) `default` to some non-required properties whose
/// schema is a plain scalar, array of scalars or map of scalars.
pub fn add_property_defaults(g: &mut G, doc: &mut Value) {
    let Some(defs) = doc.get_mut("definitions").and_then(|d| d.as_object_mut()) else { return };
    for (_, d) in defs.iter_mut() {
        gs::for_each_object_schema(d, &mut |o| {
            let required: Vec<String> = o.get("required").and_then(|r| r.as_array()).map(|a| a.iter().filter_map(|x| x.as_str().map(|s| s.to_string())).collect()).unwrap_or_default();
            if let Some(ps) = o.get_mut("properties").and_then(|p| p.as_object_mut()) {
                for (pn, ps) in ps.iter_mut() {
                    if required.contains(pn) || !g.chance(1, 2) {
                        continue;
                    }
                    let Some(po) = ps.as_object() else { continue };
                    let plain = po.keys().all(|k| matches!(k.as_str(), "type" | "items" | "additionalProperties"));
                    let default = match (po.get("type").and_then(|t| t.as_str()), plain) {
                        (Some("integer"), true) => json!(7),
                        (Some("string"), true) => json!("dflt"),
                        (Some("boolean"), true) => json!(true),
                        (Some("array"), true) if po.get("items") == Some(&json!({"type": "integer"})) || po.get("items") == Some(&json!({"type": "string"})) => {
                            if po["items"]["type"] == "integer" {
                                json!([1, 2])
                            } else {
                                json!(["a"])
                            }
                        }
                        (Some("object"), true) if po.get("additionalProperties") == Some(&json!({"type": "integer"})) => json!({"k": 1}),
                        (Some("object"), true) if po.get("additionalProperties") == Some(&json!({"type": "string"})) => json!({"env": "prod"}),
                        (Some("object"), true) if po.get("additionalProperties") == Some(&json!({"type": "boolean"})) => json!({"on": true}),
                        _ => continue,
                    };
                    ps["default"] = default;
                }
            }
        });
    }
}

fn empty_some_members(g: &mut G, v: &mut Value) {
    match v {
        Value::Object(o) => {
            for (_, x) in o.iter_mut() {
                match x {
                    Value::Object(m) if g.chance(1, 2) && m.values().all(|y| !y.is_object() && !y.is_array()) => *x = json!({}),
                    Value::Array(a) if g.chance(1, 2) && a.iter().all(|y| !y.is_object() && !y.is_array()) => *x = json!([]),
                    Value::String(_) if g.chance(1, 4) => *x = json!(""),
                    other => empty_some_members(g, other),
                }
            }
        }
        Value::Array(a) => a.iter_mut().for_each(|x| empty_some_members(g, x)),
        _ => {}
    }
}

fn strip_defaults(v: &Value) -> Value {
    match v {
        Value::Object(o) => Value::Object(o.iter().filter(|(k, _)| k.as_str() != "default").map(|(k, x)| (k.clone(), strip_defaults(x))).collect()),
        Value::Array(a) => Value::Array(a.iter().map(strip_defaults).collect()),
        x => x.clone(),
    }
}
