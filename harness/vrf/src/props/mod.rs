//! One module per property (DESIGN.md §5).
use crate::engine::Property;

pub mod c01;
pub mod c02;
pub mod c03;
pub mod c04;
pub mod c05;
pub mod c06;
pub mod c07;
pub mod c08;
pub mod c09;
pub mod c10;
pub mod c11;
pub mod c12;
pub mod c13;
pub mod c14;
pub mod c15;
pub mod c15m;
pub mod c16;
pub mod c17;
pub mod c18;
pub mod c19;
pub mod values;
pub mod common;
pub mod predicates;

pub fn lookup(id: &str) -> Option<Box<dyn Property + Send>> {
    match id {
        "C01" => Some(Box::new(c01::C01)),
        "C02" => Some(Box::new(c02::C02)),
        "C03" => Some(Box::new(c03::C03)),
        "C04" => Some(Box::new(c04::C04)),
        "C05" => Some(Box::new(c05::C05)),
        "C06" => Some(Box::new(c06::C06)),
        "C07" => Some(Box::new(c07::C07)),
        "C08" => Some(Box::new(c08::C08)),
        "C09" => Some(Box::new(c09::C09)),
        "C10" => Some(Box::new(c10::C10)),
        "C11" => Some(Box::new(c11::C11)),
        "C12" => Some(Box::new(c12::C12)),
        "C13" => Some(Box::new(c13::C13)),
        "C14" => Some(Box::new(c14::C14)),
        "C15" => Some(Box::new(c15::C15)),
        "C16" => Some(Box::new(c16::C16)),
        "C17" => Some(Box::new(c17::C17)),
        "C18" => Some(Box::new(c18::C18)),
        "C19" => Some(Box::new(c19::C19)),
        _ => None,
    }
}
