//! C16 -- the type space stays consistent across any history of additions.
//! Stateful property: a generated history is interpreted step by step and
//! invariants are checked after every step.

use super::common::*;
use crate::case::*;
use crate::engine::*;
use crate::gen::{self, schema as gs, G};
use crate::ingest::Outcome;
use crate::ingest;
use serde_json::{json, Map, Value};
use std::collections::{BTreeMap, BTreeSet};
use typify_impl::{TypeId, TypeSpace};

pub struct C16;

/// connected components (undirected reference graph) of a document's definitions
pub fn components(doc: &Value) -> Vec<Vec<String>> {
    let names = gs::def_names(doc);
    let mut parent: BTreeMap<String, String> = names.iter().map(|n| (n.clone(), n.clone())).collect();
    fn find(p: &mut BTreeMap<String, String>, x: &str) -> String {
        let px = p[x].clone();
        if px == x {
            return px;
        }
        let r = find(p, &px);
        p.insert(x.to_string(), r.clone());
        r
    }
    for n in &names {
        let mut refs = BTreeSet::new();
        gs::refs_in(&doc["definitions"][n], &mut refs);
        for r in refs {
            if parent.contains_key(&r) {
                let a = find(&mut parent, n);
                let b = find(&mut parent, &r);
                if a != b {
                    parent.insert(a, b);
                }
            }
        }
    }
    let mut groups: BTreeMap<String, Vec<String>> = BTreeMap::new();
    for n in &names {
        let r = find(&mut parent, n);
        groups.entry(r).or_default().push(n.clone());
    }
    groups.into_values().collect()
}

fn subset_defs(doc: &Value, names: &[String]) -> Value {
    let mut m = Map::new();
    for n in names {
        m.insert(n.clone(), doc["definitions"][n].clone());
    }
    Value::Object(m)
}

/// Two independent root documents (titled roots, disjoint definition names); the second may
/// refer to its own root (`#`) by reference and inside a conjunction.
fn gen_two_roots(g: &mut G) -> Value {
    let mut docs = vec![];
    for (i, tag) in ["Aa", "Bb"].iter().enumerate() {
        let mut cfg = gs::Cfg::faithful();
        cfg.max_defs = 2;
        let d = gs::document(g, &cfg);
        // disjoint definition names
        let mut text = d.to_string();
        for n in gs::def_names(&d) {
            text = text.replace(&format!("\"#/definitions/{n}\""), &format!("\"#/definitions/{tag}{n}\""));
        }
        let d: Value = serde_json::from_str(&text).unwrap();
        let mut defs = Map::new();
        for (k, v) in d["definitions"].as_object().cloned().unwrap_or_default() {
            defs.insert(format!("{tag}{k}"), v);
        }
        let title = format!("Root{tag}");
        let mut root = json!({"title": title, "type": "object", "properties": {format!("field_{i}"): {"type": "string"}, "count": {"type": "integer"}}, "required": ["count"]});
        if i == 1 || g.chance(1, 3) {
            // self references of the root: plain, and looked through by a conjunction
            root["properties"]["children"] = json!({"type": "array", "items": {"$ref": "#"}});
            defs.insert(format!("{tag}Labeled"), json!({"allOf": [{"$ref": "#"}, {"type": "object", "properties": {"label": {"type": "string"}}, "required": ["label"]}]}));
        }
        root["definitions"] = Value::Object(defs);
        docs.push(root);
    }
    json!({"settings": Settings::default(), "history": [], "root_docs": docs, "features": ["two-root-documents"]})
}

pub fn gen_c16_case(g: &mut G) -> Value {
    if g.chance(1, 6) {
        return gen_two_roots(g);
    }
    let mut cfg = gs::Cfg::faithful();
    cfg.max_defs = 6;
    let mut doc = gs::document(g, &cfg);
    // some definition keys are not already the Rust type name (snake / kebab / lower case)
    if g.chance(1, 2) {
        let names = gs::def_names(&doc);
        let n = g.pick(&names).clone();
        let raw = match g.below(3) {
            0 => n.to_lowercase(),
            1 => format!("{}_rec", n.to_lowercase()),
            _ => format!("{}-rec", n.to_lowercase()),
        };
        if !names.iter().any(|m| crate::gen::names::sanitize_like(m, true) == crate::gen::names::sanitize_like(&raw, true) && m != &n) {
            let text = doc.to_string().replace(&format!("\"#/definitions/{n}\""), &format!("\"#/definitions/{raw}\""));
            let mut d2: Value = serde_json::from_str(&text).unwrap();
            if let Some(defs) = d2.get_mut("definitions").and_then(|d| d.as_object_mut()) {
                if let Some(v) = defs.remove(&n) {
                    defs.insert(raw.clone(), v);
                }
            }
            doc = d2;
        }
    }
    // a union whose alternatives all convert from strings, one of them a string enumeration
    // that sorts after (or before) the union
    if g.chance(1, 3) {
        doc["definitions"]["ModeUnion"] = json!({"oneOf": [{"$ref": "#/definitions/ZzPreset"}, {"type": "integer"}]});
        doc["definitions"]["ZzPreset"] = json!({"type": "string", "enum": ["fast", "slow"]});
        doc["definitions"]["ZzUnionAfter"] = json!({"oneOf": [{"$ref": "#/definitions/AaPreset"}, {"type": "integer"}]});
        doc["definitions"]["AaPreset"] = json!({"type": "string", "enum": ["hot", "cold"]});
    }
    // definitions that typify represents by a native type of the same name
    let natives = g.chance(1, 3);
    if natives {
        doc["definitions"]["Uuid"] = json!({"type": "string", "format": "uuid"});
        doc["definitions"]["Ipv4Addr"] = json!({"type": "string", "format": "ipv4"});
        doc["definitions"]["NativeUser"] = json!({"type": "object", "properties": {"id": {"$ref": "#/definitions/Uuid"}, "at": {"$ref": "#/definitions/Ipv4Addr"}}, "required": ["id"]});
    }
    let mut comps = components(&doc);
    g.shuffle(&mut comps);
    // group the components into 1..k calls
    let mut groups: Vec<Vec<String>> = vec![];
    for c in comps {
        if groups.is_empty() || g.chance(2, 3) {
            groups.push(c);
        } else {
            let k = g.below(groups.len());
            groups[k].extend(c);
        }
    }
    let names = gs::def_names(&doc);
    let mut history: Vec<Value> = groups.iter().map(|grp| json!({"op": "refs", "defs": subset_defs(&doc, grp)})).collect();
    // add_type_with_name steps referencing what exists, with shared inline sub-schemas
    let shared = json!({"type": "object", "properties": {"sx": {"type": "integer"}, "sy": {"type": "string"}}, "required": ["sx"]});
    let nt = g.below(5);
    let mut type_steps: Vec<Value> = vec![];
    for i in 0..nt {
        if natives && g.chance(1, 2) {
            // the same native schemas in-line: bare, in an array, nullable
            let n = if g.chance(1, 2) { json!({"type": "string", "format": "uuid"}) } else { json!({"type": "string", "format": "ipv4"}) };
            let schema = match g.below(3) {
                0 => n,
                1 => json!({"type": "array", "items": n}),
                _ => json!({"oneOf": [n, {"type": "null"}]}),
            };
            type_steps.push(json!({"op": "type", "schema": schema, "hint": Value::Null, "inline_native": true}));
            continue;
        }
        let schema = match g.below(6) {
            0 => json!({"$ref": format!("#/definitions/{}", g.pick(&names))}),
            1 => json!({"type": "array", "items": {"$ref": format!("#/definitions/{}", g.pick(&names))}}),
            2 => json!({"type": "object", "properties": {"it": {"$ref": format!("#/definitions/{}", g.pick(&names))}, "shared": shared.clone()}, "required": ["it"]}),
            3 => shared.clone(),
            4 => json!({"type": "string", "enum": ["p", "q", "r"]}),
            _ => json!({"type": ["integer", "null"]}),
        };
        // hints: fresh, or coinciding with an existing definition name
        let hint = match g.below(4) {
            0 => None,
            1 => Some(g.pick(&names).clone()),
            _ => Some(format!("Hint{i}")),
        };
        // unnamed object schemas need a hint (add_type without a name for an
        // object is a caller error: typify cannot name the struct)
        let hint = if hint.is_none() && schema.get("type") == Some(&json!("object")) || (hint.is_none() && schema.get("enum").is_some()) { Some(format!("Hint{i}")) } else { hint };
        type_steps.push(json!({"op": "type", "schema": schema, "hint": hint}));
    }
    if g.chance(1, 3) {
        // the schema of an existing definition added again under that definition's name
        let n = g.pick(&names).clone();
        let schema = doc["definitions"][&n].clone();
        if schema.get("$ref").is_none() {
            type_steps.push(json!({"op": "type", "schema": schema, "hint": n}));
        }
    }
    // in-line native steps may be made before the definition batches
    let early = natives && g.chance(1, 2);
    if early {
        let (pre, post): (Vec<Value>, Vec<Value>) = type_steps.iter().cloned().partition(|t| t.get("inline_native").is_some());
        let mut h = pre;
        h.extend(history.clone());
        h.extend(post);
        history = h;
    } else {
        history.extend(type_steps.clone());
    }
    // repeats of earlier add_type steps
    if !type_steps.is_empty() && g.chance(2, 3) {
        let idx: Vec<usize> = history.iter().enumerate().filter(|(_, h)| h["op"] == "type").map(|(i, _)| i).collect();
        let k = *g.pick(&idx);
        let mut r = history[k].clone();
        r["repeat_of"] = json!(k);
        history.push(r);
    }
    // sometimes a definitions batch is added a second time
    let readd = g.chance(1, 6);
    if readd {
        let k = g.below(groups.len());
        history.push(json!({"op": "refs", "defs": subset_defs(&doc, &groups[k]), "readd": true}));
    }
    let settings = settings(g, &doc, false);
    json!({"settings": settings, "history": history, "all_defs": doc["definitions"], "features": if readd { vec!["readd-batch"] } else { vec![] }})
}

fn fingerprint(space: &TypeSpace, id: &TypeId) -> Option<Value> {
    let f = ingest::fact_of(space, id)?;
    Some(json!({
        "name": f.name, "ident": f.ident, "kind": f.kind,
        "props": f.props.iter().map(|p| json!([p.name, p.required, p.type_ident])).collect::<Vec<_>>(),
        "variants": f.variants.iter().map(|v| json!([v.name, v.shape, v.tuple.iter().map(|t| t.1.clone()).collect::<Vec<_>>(), v.fields.iter().map(|t| (t.0.clone(), t.2.clone())).collect::<Vec<_>>()])).collect::<Vec<_>>(),
        "inner": f.inner.map(|i| i.1), "builtin": f.builtin, "len": f.array_len,
    }))
}

fn item_map(space: &TypeSpace) -> Result<BTreeMap<String, String>, Violation> {
    let (_, file) = ingest::render(space).map_err(|e| {
        if let Some(r) = e.strip_prefix("render-panic: ") {
            Violation::new("render-panic", r.to_string())
        } else {
            Violation::new("render-parse", e)
        }
    })?;
    let ix = crate::analyse::index(&file);
    if !ix.duplicates.is_empty() {
        return Err(Violation::new("duplicate-definition", format!("{:?}", ix.duplicates)));
    }
    let mut m = BTreeMap::new();
    for item in &file.items {
        use quote::ToTokens;
        let (name, text) = match item {
            syn::Item::Struct(s) => (s.ident.to_string(), s.to_token_stream().to_string()),
            syn::Item::Enum(s) => (s.ident.to_string(), s.to_token_stream().to_string()),
            // trait implementations are part of what is defined for a type
            syn::Item::Impl(i) => {
                let tr = i.trait_.as_ref().map(|(_, p, _)| p.to_token_stream().to_string()).unwrap_or_default();
                (format!("impl {} for {}", tr, i.self_ty.to_token_stream()), i.to_token_stream().to_string())
            }
            _ => continue,
        };
        m.insert(name, text);
    }
    Ok(m)
}

fn step_of(v: &Value) -> Option<Step> {
    let mut o = v.as_object()?.clone();
    o.remove("repeat_of");
    o.remove("readd");
    o.remove("inline_native");
    serde_json::from_value(Value::Object(o)).ok()
}

impl Property for C16 {
    fn id(&self) -> &'static str {
        "C16"
    }
    fn rule(&self) -> String {
        "stateful generation: a document's definitions are split by connected components of the reference graph into 1..k add_ref_types calls in random order, followed by 0-4 add_type_with_name calls (references to earlier definitions, shared inline sub-schemas, hints that do / do not coincide with definition names), repeats of earlier add_type calls, and occasionally a second add of a definitions batch; invariants are checked after every step and the split history is compared with the single-call history; non-trivial = >=3 operations including a repeat or a split into >=2 calls; distinct by canonical JSON".into()
    }
    fn assumptions(&self) -> Vec<String> {
        vec![
            "batches respect the documented precondition of add_ref_types (a batch is a union of connected components)".into(),
            "structure = name, identifier, kind, property/variant lists with type identifiers, inner type (has_impl answers are not part of it)".into(),
            "a history stops at the first add_* error or panic (the type space is documented to be in an undefined state then)".into(),
        ]
    }
    fn fuzz_gen(&self, g: &mut G) -> Option<Value> {
        Some(gen_c16_case(g))
    }
    fn generate(&self, tier: Tier, seed: u64) -> Vec<Value> {
        gen::draw(seed, "C16", tier.pick(2500, 120000), gen_c16_case)
    }
    fn chunk(&self) -> usize {
        20000
    }
    fn prepare(&self, c: &Value) -> Unit {
        let Ok(settings) = serde_json::from_value::<Settings>(c["settings"].clone()) else { return invalid_unit("settings".into()) };
        let Some(hist) = c["history"].as_array() else { return invalid_unit("history".into()) };
        let steps: Vec<Step> = match hist.iter().map(step_of).collect::<Option<Vec<_>>>() {
            Some(s) => s,
            None => return invalid_unit("step".into()),
        };
        let mut unit = Unit::default();
        let Ok(ts) = ingest::guarded(|| ingest::build_settings(&settings)).unwrap_or_else(|p| Err(p)) else { return invalid_unit("settings rejected".into()) };
        if let Some(docs) = c.get("root_docs").and_then(|d| d.as_array()) {
            // independent root documents commute: either order gives the same definitions
            if docs.len() != 2 {
                return invalid_unit("root_docs".into());
            }
            unit.nontrivial = true;
            unit.classes.push("two-root-documents".into());
            let run = |order: [usize; 2]| -> Result<BTreeMap<String, String>, (Outcome, String, Option<Violation>)> {
                let mut space = TypeSpace::new(&ts);
                for i in order {
                    if let Err((o, m)) = ingest::apply_step(&mut space, &Step::Root { doc: docs[i].clone() }) {
                        return Err((o, m, None));
                    }
                }
                item_map(&space).map_err(|v| (Outcome::Ok, String::new(), Some(v)))
            };
            match (run([0, 1]), run([1, 0])) {
                (Ok(a), Ok(b)) => {
                    if a != b {
                        let ka: BTreeSet<&String> = a.keys().collect();
                        let kb: BTreeSet<&String> = b.keys().collect();
                        let detail = if ka != kb {
                            format!("definitions differ: only in order [0,1] {:?}, only in order [1,0] {:?}", ka.difference(&kb).collect::<Vec<_>>(), kb.difference(&ka).collect::<Vec<_>>())
                        } else {
                            let d = a.iter().find(|(k, v)| b.get(*k) != Some(*v)).map(|(k, _)| k.clone()).unwrap_or_default();
                            format!("item {d} differs between the two orders of the root documents")
                        };
                        unit.violations.push(Violation::new("order-changes-definitions", detail));
                    }
                }
                (Err((o, m, v)), _) | (_, Err((o, m, v))) => match v {
                    Some(v) => unit.violations.push(v),
                    None => {
                        unit.outcome = o;
                        unit.message = m;
                    }
                },
            }
            return unit;
        }
        let mut space = TypeSpace::new(&ts);
        let mut recorded: BTreeMap<String, (TypeId, Value)> = BTreeMap::new();
        let mut step_ident: Vec<Option<String>> = vec![];
        let mut step_ids: Vec<Option<TypeId>> = vec![];
        let n_refs = steps.iter().filter(|s| matches!(s, Step::Refs { .. })).count();
        let has_repeat = hist.iter().any(|h| h.get("repeat_of").is_some() || h.get("readd").is_some());
        unit.nontrivial = steps.len() >= 3 && (has_repeat || n_refs >= 2);
        for f in c["features"].as_array().into_iter().flatten().filter_map(|f| f.as_str()) {
            unit.classes.push(f.to_string());
        }
        for (i, step) in steps.iter().enumerate() {
            let before_items = if hist[i].get("repeat_of").is_some() { item_map(&space).ok() } else { None };
            let res = ingest::apply_step(&mut space, step);
            let id = match res {
                Ok(id) => id,
                Err((o, m)) => {
                    unit.outcome = o;
                    unit.message = format!("step {i}: {m}");
                    return unit;
                }
            };
            step_ident.push(id.as_ref().and_then(|id| space.get_type(id).ok().map(|t| ingest::ts(t.ident()))));
            step_ids.push(id.clone());
            // record the returned id and the ids of the definitions just added
            let mut fresh: Vec<TypeId> = id.iter().cloned().collect();
            if let Step::Refs { defs } = step {
                for n in defs.as_object().map(|o| o.keys().cloned().collect::<Vec<_>>()).unwrap_or_default() {
                    if let Ok(s) = serde_json::from_value::<schemars::schema::Schema>(json!({"$ref": format!("#/definitions/{n}")})) {
                        if let Ok(Ok(rid)) = ingest::guarded(|| space.add_type(&s)) {
                            fresh.push(rid);
                        }
                    }
                }
            }
            for rid in fresh {
                let key = ingest::tid(&rid);
                match fingerprint(&space, &rid) {
                    Some(fp) => {
                        recorded.entry(key).or_insert((rid, fp));
                    }
                    None => unit.violations.push(Violation::new("returned-id-unresolvable", format!("step {i} returned {key} which get_type rejects"))),
                }
            }
            // invariant: every recorded id still resolves to the same triple
            for (key, (rid, fp)) in &recorded {
                match fingerprint(&space, rid) {
                    Some(now) if &now == fp => {}
                    Some(now) => {
                        unit.violations.push(Violation::new("id-changed-meaning", format!("after step {i}, {key} changed from {fp} to {now}")));
                        break;
                    }
                    None => {
                        unit.violations.push(Violation::new("id-no-longer-resolves", format!("after step {i}, {key} no longer resolves")));
                        break;
                    }
                }
            }
            // invariant: re-adding returns the same identifier and adds no definitions
            if let Some(k) = hist[i].get("repeat_of").and_then(|k| k.as_u64()) {
                let first = step_ident.get(k as usize).cloned().flatten();
                let again = step_ident[i].clone();
                if first != again {
                    unit.violations.push(Violation::new("readd-different-identifier", format!("step {i} repeats step {k}: identifiers {:?} vs {:?}", first, again)));
                }
                // ... and for unnamed (structurally identified) types the very same TypeId
                if hist[i]["hint"].is_null() {
                    if let (Some(Some(a)), Some(b)) = (step_ids.get(k as usize), id.as_ref()) {
                        if ingest::tid(a) != ingest::tid(b) {
                            unit.violations.push(Violation::new("readd-different-type-id", format!("step {i} repeats step {k} (an unnamed schema): TypeId {} then {}", ingest::tid(a), ingest::tid(b))));
                        }
                    }
                }
                if let (Some(b), Ok(a)) = (before_items, item_map(&space)) {
                    let bn: BTreeSet<&String> = b.keys().collect();
                    let an: BTreeSet<&String> = a.keys().collect();
                    if bn != an {
                        unit.violations.push(Violation::new("readd-adds-definitions", format!("step {i} repeats step {k} and changes the set of definitions: added {:?}", an.difference(&bn).collect::<Vec<_>>())));
                    }
                }
            }
            // invariant: output parses, no two definitions of one name
            if let Err(v) = item_map(&space) {
                let mut v = v;
                v.detail = format!("after step {i}: {}", v.detail);
                unit.violations.push(v);
                break;
            }
        }
        // split invariance: the same definitions in one call (then the same add_type steps)
        if n_refs >= 2 && !hist.iter().any(|h| h.get("readd").is_some()) && unit.violations.is_empty() {
            let mut alt = TypeSpace::new(&ts);
            let mut ok = true;
            let single = Step::Refs { defs: c["all_defs"].clone() };
            if ingest::apply_step(&mut alt, &single).is_err() {
                ok = false;
                unit.violations.push(Violation::new("split-changes-acceptance", "the split history is accepted but the single add_ref_types call with the same definitions is not".to_string()));
            }
            if ok {
                for s in steps.iter().filter(|s| matches!(s, Step::Type { .. })) {
                    if ingest::apply_step(&mut alt, s).is_err() {
                        ok = false;
                        break;
                    }
                }
            }
            if ok {
                if let (Ok(a), Ok(b)) = (item_map(&space), item_map(&alt)) {
                    if a != b {
                        let ka: BTreeSet<&String> = a.keys().collect();
                        let kb: BTreeSet<&String> = b.keys().collect();
                        let detail = if ka != kb {
                            format!("item names differ: only in split {:?}, only in single {:?}", ka.difference(&kb).collect::<Vec<_>>(), kb.difference(&ka).collect::<Vec<_>>())
                        } else {
                            let d = a.iter().find(|(k, v)| b.get(*k) != Some(*v)).map(|(k, _)| k.clone()).unwrap_or_default();
                            format!("item {d} differs between the split and the single-call history")
                        };
                        unit.violations.push(Violation::new("split-changes-definitions", detail));
                    }
                }
            }
        }
        // order invariance: add_type calls that refer to no definition and carry a fresh name are
        // independent of the definition batches; made first instead of last, the same set of
        // definitions (items and trait implementations) must result
        let def_names: BTreeSet<String> = c["all_defs"].as_object().map(|o| o.keys().cloned().collect()).unwrap_or_default();
        let independent = |h: &Value| -> bool {
            h["op"] == "type"
                && h.get("repeat_of").is_none()
                && !h["schema"].to_string().contains("\"$ref\"")
                && h["hint"].as_str().map(|n| n.starts_with("Hint") && !def_names.contains(n)).unwrap_or(false)
        };
        let all_type_hints_fresh = hist.iter().filter(|h| h["op"] == "type").all(|h| h["hint"].as_str().map(|n| !def_names.contains(n)).unwrap_or(true));
        if unit.violations.is_empty() && all_type_hints_fresh && !hist.iter().any(|h| h.get("readd").is_some()) && hist.iter().any(|h| independent(h)) && n_refs >= 1 {
            let mut alt = TypeSpace::new(&ts);
            let mut ok = true;
            let order: Vec<usize> = (0..steps.len()).filter(|i| independent(&hist[*i])).chain((0..steps.len()).filter(|i| !independent(&hist[*i]))).collect();
            for i in order {
                if ingest::apply_step(&mut alt, &steps[i]).is_err() {
                    ok = false;
                    break;
                }
            }
            if ok {
                *unit.counters.entry("order_invariance_checked".into()).or_default() += 1;
                if let (Ok(a), Ok(b)) = (item_map(&space), item_map(&alt)) {
                    if a != b {
                        let ka: BTreeSet<&String> = a.keys().collect();
                        let kb: BTreeSet<&String> = b.keys().collect();
                        let detail = if ka != kb {
                            format!("definitions differ: only with the independent add_type calls last {:?}, only with them first {:?}", ka.difference(&kb).collect::<Vec<_>>(), kb.difference(&ka).collect::<Vec<_>>())
                        } else {
                            let d = a.iter().find(|(k, v)| b.get(*k) != Some(*v)).map(|(k, _)| k.clone()).unwrap_or_default();
                            format!("item {d} differs when the independent add_type calls are made first")
                        };
                        unit.violations.push(Violation::new("order-changes-definitions", detail));
                    }
                }
            }
        }
        let mut seen = BTreeSet::new();
        unit.violations.retain(|v| seen.insert(v.symptom.clone()));
        unit
    }
    fn in_domain(&self, c: &Value) -> bool {
        if let Some(docs) = c.get("root_docs").and_then(|d| d.as_array()) {
            // two titled roots with disjoint definition names
            let names = |d: &Value| -> BTreeSet<String> { d.get("definitions").and_then(|x| x.as_object()).map(|o| o.keys().cloned().collect()).unwrap_or_default() };
            return docs.len() == 2
                && docs.iter().all(|d| d.get("title").and_then(|t| t.as_str()).is_some() && d.get("type") == Some(&json!("object")))
                && docs[0]["title"] != docs[1]["title"]
                && names(&docs[0]).is_disjoint(&names(&docs[1]))
                && docs.iter().all(|d| !names(d).contains(d["title"].as_str().unwrap_or("")));
        }
        // every refs batch must be a union of connected components of all_defs
        let Some(hist) = c["history"].as_array() else { return false };
        let doc = json!({"definitions": c["all_defs"]});
        if !c["all_defs"].is_object() {
            return false;
        }
        let comps = components(&doc);
        let mut union: BTreeSet<String> = BTreeSet::new();
        for h in hist {
            if h["op"] == "refs" {
                let Some(defs) = h["defs"].as_object() else { return false };
                let names: BTreeSet<String> = defs.keys().cloned().collect();
                for comp in &comps {
                    let inside = comp.iter().filter(|n| names.contains(*n)).count();
                    if inside != 0 && inside != comp.len() {
                        return false;
                    }
                }
                // batch content must equal all_defs content
                if !defs.iter().all(|(k, v)| c["all_defs"].get(k) == Some(v)) {
                    return false;
                }
                union.extend(names);
            }
            if let Some(k) = h.get("repeat_of").and_then(|k| k.as_u64()) {
                let Some(orig) = hist.get(k as usize) else { return false };
                if orig["schema"] != h["schema"] || orig["hint"] != h["hint"] {
                    return false;
                }
            }
        }
        // all definitions are added and references resolve
        let all: BTreeSet<String> = c["all_defs"].as_object().map(|o| o.keys().cloned().collect()).unwrap_or_default();
        union == all && gs::doc_in_faithful(&doc)
    }
    fn predicate(&self, name: &str, case: &Value, v: &Violation) -> bool {
        super::predicates::check(name, case, v)
    }
}
