//! C06 -- schema defaults are reproduced exactly, or rejected when the schema
//! is added.

use super::common::*;

use crate::case::*;
use crate::compile::{CompileStatus, ProbeResult};
use crate::engine::*;
use crate::gen::instance::{mutants_opt, Inst};
use crate::gen::{self, schema as gs, G};
use crate::ingest::{self, Outcome};
use crate::py::Py;
use serde_json::{json, Map, Value};

pub struct C06;

fn aux_defs_static() -> Map<String, Value> {
    let mut g = G::new(proptest::test_runner::TestRng::deterministic_rng(proptest::test_runner::RngAlgorithm::ChaCha));
    aux_defs(&mut g)
}

fn aux_defs(g: &mut G) -> Map<String, Value> {
    let mut m = Map::new();
    m.insert("AuxStruct".into(), json!({"type": "object", "properties": {"ax": {"type": "integer"}, "ay": {"type": "string"}}, "required": ["ax"]}));
    m.insert("AuxEnum".into(), json!({"type": "string", "enum": ["one", "two", "three"]}));
    m.insert("AuxShort".into(), json!({"type": "string", "minLength": 1, "maxLength": 4}));
    m.insert("AuxTree".into(), json!({"type": "object", "properties": {"kids": {"type": "array", "items": {"$ref": "#/definitions/AuxTree"}}, "v": {"type": "integer"}}, "required": ["v"]}));
    let _ = g;
    m
}

fn all_kinds() -> Vec<(&'static str, Value)> {
    let r = |n: &str| json!({"$ref": format!("#/definitions/{n}")});
    let mut kinds: Vec<(&str, Value)> = vec![
        ("bool", json!({"type": "boolean"})),
        ("int", json!({"type": "integer"})),
        ("nonzero", json!({"type": "integer", "minimum": 1})),
        ("uint", json!({"type": "integer", "minimum": 0})),
        ("float", json!({"type": "number"})),
        ("f32", json!({"type": "number", "format": "float"})),
        ("string", json!({"type": "string"})),
        ("string-constrained", json!({"type": "string", "minLength": 2, "maxLength": 5})),
        ("string-pattern", json!({"type": "string", "pattern": "^[a-z]+$"})),
        ("string-enum", json!({"type": "string", "enum": ["red", "green", "blue"]})),
        ("uuid", json!({"type": "string", "format": "uuid"})),
        ("date-time", json!({"type": "string", "format": "date-time"})),
        ("ip", json!({"type": "string", "format": "ipv4"})),
        ("option-int", json!({"type": ["integer", "null"]})),
        ("option-string", json!({"type": ["string", "null"]})),
        ("option-ref", json!({"oneOf": [r("AuxStruct"), {"type": "null"}]})),
        ("vec-int", json!({"type": "array", "items": {"type": "integer"}})),
        ("vec-string", json!({"type": "array", "items": {"type": "string"}})),
        ("vec-ref", json!({"type": "array", "items": r("AuxStruct")})),
        ("set", json!({"type": "array", "items": {"type": "string"}, "uniqueItems": true})),
        ("map-int", json!({"type": "object", "additionalProperties": {"type": "integer"}})),
        ("map-ref", json!({"type": "object", "additionalProperties": r("AuxEnum")})),
        ("tuple1", json!({"type": "array", "items": [{"type": "integer"}], "minItems": 1, "maxItems": 1})),
        ("tuple2", json!({"type": "array", "items": [{"type": "integer"}, {"type": "string"}], "minItems": 2, "maxItems": 2})),
        ("tuple3", json!({"type": "array", "items": [{"type": "boolean"}, {"type": "string"}, r("AuxEnum")], "minItems": 3, "maxItems": 3})),
        ("tuple4", json!({"type": "array", "items": [{"type": "integer"}, {"type": "integer"}, {"type": "string"}, {"type": "number"}], "minItems": 4, "maxItems": 4})),
        ("fixed-array", json!({"type": "array", "items": {"type": "integer"}, "minItems": 3, "maxItems": 3})),
        ("struct-inline", json!({"type": "object", "properties": {"a": {"type": "integer"}, "b": {"type": "string", "default": "bee"}}, "required": ["a"]})),
        ("struct-flatten", json!({"type": "object", "properties": {"a": {"type": "integer"}}, "required": ["a"], "additionalProperties": {"type": "string"}})),
        // members whose JSON name is not the Rust field name, next to flattened extras
        ("struct-flatten-renamed", json!({"type": "object", "properties": {"maxRetries": {"type": "integer"}, "name": {"type": "string"}}, "required": ["maxRetries"], "additionalProperties": {"type": "string"}})),
        ("struct-flatten-renamed", json!({"type": "object", "properties": {"max-retries": {"type": "integer"}, "type": {"type": "string"}}, "additionalProperties": {"type": "integer"}})),
        ("struct-renamed", json!({"type": "object", "properties": {"maxRetries": {"type": "integer"}, "type": {"type": "string", "default": "plain"}, "1st": {"type": "boolean"}}, "required": ["maxRetries"]})),
        // a struct that carries a default of its own *and* member defaults (served by shared helpers)
        ("struct-with-member-defaults", json!({"type": "object", "properties": {"port": {"type": "integer", "format": "uint16", "default": 8080}, "on": {"type": "boolean", "default": true}, "retries": {"type": "integer", "default": -3}, "label": {"type": "string"}}})),
        ("struct-with-member-defaults", json!({"type": "object", "properties": {"level": {"type": "integer", "minimum": 1, "default": 7}, "tags": {"type": "array", "items": {"type": "string"}, "default": ["x"]}}, "required": []})),
        ("struct-ref", r("AuxStruct")),
        ("enum-ref", r("AuxEnum")),
        ("newtype-ref", r("AuxShort")),
        ("boxed-recursive", r("AuxTree")),
        ("enum-external", json!({"oneOf": [{"type": "string", "enum": ["unit"]}, {"type": "object", "properties": {"num": {"type": "integer"}}, "required": ["num"], "additionalProperties": false}, {"type": "object", "properties": {"st": {"type": "object", "properties": {"x": {"type": "string"}}, "required": ["x"]}}, "required": ["st"], "additionalProperties": false}]})),
        ("enum-internal", json!({"oneOf": [{"type": "object", "properties": {"kind": {"type": "string", "enum": ["a"]}, "n": {"type": "integer"}}, "required": ["kind", "n"]}, {"type": "object", "properties": {"kind": {"type": "string", "enum": ["b"]}, "s": {"type": "string"}}, "required": ["kind"]}]})),
        ("enum-adjacent", json!({"oneOf": [{"type": "object", "properties": {"tag": {"type": "string", "enum": ["a"]}, "content": {"type": "integer"}}, "required": ["tag", "content"]}, {"type": "object", "properties": {"tag": {"type": "string", "enum": ["b"]}, "content": {"type": "array", "items": {"type": "string"}}}, "required": ["tag", "content"]}]})),
        ("enum-untagged", json!({"oneOf": [{"type": "integer"}, {"type": "string"}, {"type": "array", "items": {"type": "boolean"}}]})),
        ("unit", json!({"type": "null"})),
        ("any", json!({})),
    ];
    for f in gs::INT_FORMATS {
        kinds.push(("int-format", json!({"type": "integer", "format": f})));
    }
    // constrained strings are drawn more often (their defaults have the most ways to be wrong)
    for (lo, hi) in [(0u64, 3u64), (1, 1), (3, 8)] {
        kinds.push(("string-constrained", json!({"type": "string", "minLength": lo, "maxLength": hi})));
    }
    kinds.push(("string-constrained", json!({"type": "string", "minLength": 4})));
    kinds.push(("string-constrained", json!({"type": "string", "maxLength": 5})));
    kinds.push(("newtype-ref", json!({"$ref": "#/definitions/AuxShort"})));
    // tagged unions are drawn more often (each tagging has its own default validation)
    let tagged: Vec<(&str, Value)> = kinds.iter().filter(|(k, _)| matches!(*k, "enum-external" | "enum-internal" | "enum-adjacent")).cloned().collect();
    for _ in 0..2 {
        kinds.extend(tagged.iter().cloned());
    }
    kinds
}

/// a schema of one of the representable kinds (DESIGN C06 domain)
fn kind_schema(g: &mut G) -> (String, Value) {
    let kinds = all_kinds();
    let (mut k, mut s) = g.pick(&kinds).clone();
    // `default` on number schemas is ignored altogether (known finding KF-013)
    while s.get("type") == Some(&json!("number")) {
        gen::excluded("default-on-number-schema", 1);
        let (k2, s2) = g.pick(&kinds).clone();
        k = k2;
        s = s2;
    }
    (k.to_string(), s)
}

pub fn gen_c06_case(g: &mut G) -> Value {
    let (kind, s) = kind_schema(g);
    let mut defs = aux_defs(g);
    let doc_for_inst = json!({"definitions": Value::Object(defs.clone())});
    let mut inst = Inst::new(&doc_for_inst);
    inst.boundary = g.chance(1, 3);
    let valid = inst.gen(g, &s, 3);
    let formatted = s.get("format").map(|f| gs::STR_FORMATS.contains(&f.as_str().unwrap_or(""))).unwrap_or(false);
    if formatted {
        gen::excluded("invalid-default-on-formatted-string", 1);
    }
    // length-constrained strings: defaults at the bounds +-1, counted in Unicode
    // scalar values, built from 1-4 byte characters (byte length != scalar count)
    let resolved = if let Some(r) = s.get("$ref").and_then(|r| r.as_str()) { doc_for_inst.pointer(&r[1..]).cloned().unwrap_or(Value::Null) } else { s.clone() };
    let bounds: Vec<u64> = ["minLength", "maxLength"].iter().filter_map(|k| resolved.get(*k).and_then(|v| v.as_u64())).collect();
    let tagged_object = kind.starts_with("enum-") && valid.is_object();
    let (d, flavour) = if tagged_object && g.chance(1, 2) {
        // a member next to the tag (and content) that the union does not declare
        let mut o = valid.as_object().cloned().unwrap_or_default();
        o.insert("zz_stray".into(), json!(1));
        (Value::Object(o), "stray-member")
    } else if !bounds.is_empty() && g.chance(2, 3) {
        let b = *g.pick(&bounds);
        let n = *g.pick(&[b.saturating_sub(1), b, b + 1]);
        let c = *g.pick(&['a', 'é', '名', '\u{1F600}']);
        (json!(std::iter::repeat(c).take(n as usize).collect::<String>()), "length-boundary")
    } else if formatted || g.chance(3, 5) {
        (valid, "valid-by-construction")
    } else {
        let ms = mutants_opt(g, &valid, 6, true);
        if ms.is_empty() {
            (valid, "valid-by-construction")
        } else {
            let (_, m) = g.pick(&ms).clone();
            (m, "mutant")
        }
    };
    let mut ps = s.as_object().cloned().unwrap_or_default();
    ps.insert("default".into(), d.clone());
    // as a property default ... (not for inline object schemas: their default
    // only reaches the generated struct's Default impl, known finding KF-015;
    // formatted strings only with valid defaults, known finding KF-014)
    let inline_struct = s.get("type") == Some(&json!("object")) && s.get("properties").is_some();
    if inline_struct {
        gen::excluded("property-default-on-inline-struct", 1);
    }
    let p_schema = if inline_struct { json!({"type": "string"}) } else { Value::Object(ps.clone()) };
    defs.insert("Holder".into(), json!({"type": "object", "properties": {"p": p_schema, "q": {"type": "integer"}}, "required": ["q"]}));
    // ... and as the default of a named type
    defs.insert("Named".into(), Value::Object(ps));
    let settings = Settings { struct_builder: g.chance(1, 2), ..Default::default() };
    let case = Case {
        settings,
        history: vec![Step::Root { doc: json!({"definitions": Value::Object(defs)}) }],
        roots: vec![RootSel::Ref { r: "#/definitions/Holder".into() }, RootSel::Ref { r: "#/definitions/Named".into() }],
        probes: vec![],
        extra: json!({"kind": kind, "flavour": flavour, "schema": s, "default": d}),
        ..Default::default()
    };
    gen::to_value(&case)
}

/// A member the struct-valued default `d` leaves out, that has a default of its own and is
/// realised with another value.
fn misfilled_member(schema: &Value, d: &Value, w: &Value) -> Option<(String, Value, Value)> {
    let props = schema.get("properties")?.as_object()?;
    let (dobj, wobj) = (d.as_object()?, w.as_object()?);
    for (k, ps) in props {
        let Some(want) = ps.get("default") else { continue };
        if dobj.contains_key(k) {
            continue;
        }
        if let Some(got) = wobj.get(k) {
            let same = match (want, got) {
                (Value::Number(a), Value::Number(b)) => a.as_f64() == b.as_f64(),
                (a, b) => a == b,
            };
            if !same {
                return Some((k.clone(), want.clone(), got.clone()));
            }
        }
    }
    None
}

/// which top-level item of gen.rs does `line` (1-based) belong to?
fn enclosing_item(gen_rs: &str, line: usize) -> String {
    let lines: Vec<&str> = gen_rs.lines().collect();
    let mut i = line.min(lines.len()).saturating_sub(1);
    loop {
        let l = lines.get(i).copied().unwrap_or("");
        if !l.starts_with(' ') && !l.starts_with('}') && !l.starts_with("//") && !l.starts_with('#') && !l.trim().is_empty() {
            return l.to_string();
        }
        if i == 0 {
            return String::new();
        }
        i -= 1;
    }
}

impl Property for C06 {
    fn id(&self) -> &'static str {
        "C06"
    }
    fn rule(&self) -> String {
        "one case = a schema of one representable kind (bool, integers incl. NonZero, floats, strings plain/constrained/enum/formatted, options, vectors, sets, maps, tuples of arity 1-4, fixed arrays, structs incl. flattened additionalProperties, each enum tagging, newtypes, boxed recursive types, unit) with a `default` that is a schema-directed instance or a single-edit mutant of one, used both as a property default and as the default of a named type, builder on/off; python classifies the default; non-trivial = the default differs from the intrinsic default of its kind, or is invalid; distinct by canonical JSON".into()
    }
    fn assumptions(&self) -> Vec<String> {
        vec![
            "python jsonschema decides whether a default is a valid instance of its schema".into(),
            "a panic inside add_* is a refusal at add time (tallied, not a violation); deferral to rendering, to uncompilable code or a silently different value is a violation".into(),
            "realised default ⊒ schema default up to filling of nested defaults".into(),
        ]
    }
    fn generate(&self, tier: Tier, seed: u64) -> Vec<Value> {
        gen::draw(seed, "C06", tier.pick(350, 12000), gen_c06_case)
    }
    fn prepare(&self, case_v: &Value) -> Unit {
        let case = match parse_case(case_v) {
            Ok(c) => c,
            Err(e) => return invalid_unit(e),
        };
        let mut unit = Unit::default();
        let mut ing = ingest::ingest(&case);
        unit.outcome = ing.outcome.clone();
        unit.message = ing.message.clone();
        unit.classes.push(format!("kind:{}", case.extra["kind"].as_str().unwrap_or("?")));
        if ing.outcome != Outcome::Ok {
            return unit;
        }
        let ids = ingest::resolve_roots(&mut ing, &case);
        let Some(r) = render_checked(&ing, &mut unit.violations) else {
            // a render panic after successful ingestion is exactly the deferral the property forbids
            for v in unit.violations.iter_mut() {
                v.symptom = format!("default-deferred-{}", v.symptom);
            }
            return unit;
        };
        unit.violations.clear(); // render-unstable etc. are C12's subject
        let mut drv = Driver::new();
        let holder = ids.first().cloned().flatten().and_then(|id| ingest::fact_of(&ing.space, &id));
        let named = ids.get(1).cloned().flatten().and_then(|id| ingest::fact_of(&ing.space, &id));
        if let Some(h) = &holder {
            drv.arm(0, "de", "de", &h.ident);
            unit.probes.push(Probe { root: 0, op: "de".into(), arg: json!({"q": 1}), tag: "serde-default".into() });
            if let Some(b) = &h.builder {
                let _ = b;
                drv.arm_expr(0, "builder", format!("{{ let r: ::std::result::Result<{}, _> = <{}>::builder().q(1_i64).try_into(); match r {{ ::std::result::Result::Ok(v) => ::serde_json::to_string(&v).map_err(|e| e.to_string()), ::std::result::Result::Err(e) => ::std::result::Result::Err(e.to_string()) }} }}", h.ident, h.ident));
                unit.probes.push(Probe { root: 0, op: "builder".into(), arg: Value::Null, tag: "builder-default".into() });
            }
        }
        if let Some(n) = &named {
            if r.index.impls.iter().any(|i| i.self_ty == n.ident && i.trait_ == "::std::default::Default") {
                drv.arm(1, "default", "default", &n.ident);
                unit.probes.push(Probe { root: 1, op: "default".into(), arg: Value::Null, tag: "impl-default".into() });
            }
        }
        let (m, keys) = module(&None, r.text, &drv);
        unit.module = Some(m);
        unit.info = json!({"drv_keys": keys});
        unit
    }
    fn judge(&self, case_v: &Value, unit: &Unit, compile: &CompileStatus, probes: &[ProbeResult], py: &mut Py) -> Result<Judged, String> {
        let mut j = Judged::default();
        let case = parse_case(case_v)?;
        let schema = case.extra["schema"].clone();
        let d = case.extra["default"].clone();
        let doc = history_document(&case);
        let mut q = json!({"definitions": doc["definitions"], "allOf": [schema]});
        if !schema.is_object() {
            q = json!({"definitions": doc["definitions"]});
        }
        let valid = py.validate(&q, None, &[d.clone()])?.first().cloned().flatten();
        let Some(mut valid) = valid else { return Ok(j) };
        if !valid {
            // optional members are Option<T> by design (README), so `null` for an
            // optional non-nullable member is accepted: not this property's subject
            fn strip_nulls(v: &Value) -> Value {
                match v {
                    Value::Object(o) => Value::Object(o.iter().filter(|(_, x)| !x.is_null()).map(|(k, x)| (k.clone(), strip_nulls(x))).collect()),
                    Value::Array(a) => Value::Array(a.iter().map(strip_nulls).collect()),
                    x => x.clone(),
                }
            }
            let stripped = strip_nulls(&d);
            if stripped != d && py.validate(&q, None, &[stripped])?.first().cloned().flatten() == Some(true) {
                *j.counters.entry("skipped_null_for_optional_member".into()).or_default() += 1;
                valid = true;
                if unit.outcome == Outcome::Ok {
                    return Ok(j);
                }
            }
        }
        let intrinsic = matches!(&d, Value::Null) || d == json!(false) || d == json!(0) || d == json!("") || d == json!([]) || d == json!({});
        j.nontrivial = Some(!valid || !intrinsic);
        j.classes.push(if valid { "default-valid".into() } else { "default-invalid".into() });
        match unit.outcome {
            Outcome::Ok => {}
            Outcome::Err | Outcome::Panic => {
                // "reproduced exactly, or rejected when the schema is added":
                // a refusal at add time is always within the property (whether
                // a valid default should have been accepted is C01's clause
                // about the supported fragment)
                let k = match (valid, &unit.outcome) {
                    (true, _) => "valid_refused_at_add_time",
                    (false, Outcome::Err) => "invalid_refused_by_err",
                    (false, _) => "invalid_refused_by_panic",
                };
                *j.counters.entry(k.into()).or_default() += 1;
                return Ok(j);
            }
            _ => return Ok(j),
        }
        if !unit.violations.is_empty() {
            return Ok(j); // render failure already reported by prepare
        }
        if !valid {
            j.violations.push(Violation::new("invalid-default-accepted", format!("default {} is not a valid instance of {} yet the schema was added without error", d, schema)));
            return Ok(j);
        }
        match compile {
            CompileStatus::Ok => {}
            CompileStatus::NotCompiled => return Ok(j),
            CompileStatus::Failed(diags) => {
                if diags.iter().all(|x| x.file != "gen") {
                    // driver arms call into defaults / builders: an error there is about the default too
                    let x = &diags[0];
                    return Err(format!("harness driver does not compile: {} {} | {}", x.code, x.message, x.snippet));
                }
                let gen_rs = unit.module.as_ref().map(|m| m.gen_rs.as_str()).unwrap_or("");
                let mine = diags.iter().find(|x| {
                    x.file == "gen" && {
                        let it = enclosing_item(gen_rs, x.line);
                        // inside the defaults module / a Default impl, or at an attribute or
                        // expression that names a default function
                        it.starts_with("pub mod defaults") || it.contains("::std::default::Default for") || x.snippet.contains("defaults::") || x.snippet.contains("serde(default")
                    }
                });
                match mine {
                    Some(x) => j.violations.push(Violation::new("default-uncompilable", format!("valid default {} for {}: {} {} | {}", d, schema, x.code, x.message, x.snippet))),
                    None => *j.counters.entry("not_evaluated_uncompilable".into()).or_default() += 1,
                }
                return Ok(j);
            }
        }
        // realised defaults
        let mut realised: Vec<(String, Value)> = vec![];
        for (p, r) in unit.probes.iter().zip(probes) {
            match (p.op.as_str(), r) {
                ("de", ProbeResult::Ok(w)) | ("builder", ProbeResult::Ok(w)) => {
                    if doc.pointer("/definitions/Holder/properties/p/default").is_some() {
                        realised.push((p.tag.clone(), w.get("p").cloned().unwrap_or(Value::Null)))
                    }
                }
                ("default", ProbeResult::Ok(w)) => realised.push((p.tag.clone(), w.clone())),
                (_, ProbeResult::NotRun) => return Err("probe not run on a compiled module".into()),
                (_, other) => j.violations.push(Violation::new("default-not-realised", format!("{}: valid default {} for {} but {} gives {}", p.tag, d, schema, p.op, other.brief()))),
            }
        }
        let outs: Vec<Value> = realised.iter().map(|(_, w)| w.clone()).collect();
        let out_valid = py.validate(&q, None, &outs)?;
        for ((tag, w), ok) in realised.iter().zip(out_valid) {
            *j.counters.entry("realised_defaults".into()).or_default() += 1;
            if let Err((path, what)) = contained_default(&d, w) {
                j.violations.push(Violation::new("default-differs", format!("{tag}: schema default {} for {} is realised as {} ({what} at {path})", d, schema, w)));
            } else if let Some((k, want, got)) = misfilled_member(&schema, &d, w) {
                // "up to filling of nested defaults": what is filled in is the member's own default
                j.violations.push(Violation::new("default-member-misfilled", format!("{tag}: schema default {} for {} is realised as {}: member {k} was filled with {got}, its own default is {want}", d, schema, w)));
            } else if ok == Some(false) && !(w.is_null() && droppable_default(&d)) {
                j.violations.push(Violation::new("realised-default-invalid", format!("{tag}: realised default {} is not valid under {}", w, schema)));
            }
        }
        let mut seen = std::collections::BTreeSet::new();
        j.violations.retain(|v| seen.insert(v.symptom.clone()));
        Ok(j)
    }
    fn in_domain(&self, case_v: &Value) -> bool {
        // the extra.schema / extra.default pair must be what the document says
        let Ok(case) = parse_case(case_v) else { return false };
        let doc = history_document(&case);
        let Some(named) = doc.pointer("/definitions/Named").and_then(|n| n.as_object()) else { return false };
        let mut s = named.clone();
        let d = s.remove("default");
        let holder_p = doc.pointer("/definitions/Holder/properties/p");
        all_kinds().iter().any(|(_, k)| k == &case.extra["schema"])
            && aux_defs_static().iter().all(|(k, v)| doc.pointer(&format!("/definitions/{k}")) == Some(v))
            && d.as_ref() == Some(&case.extra["default"]) && Value::Object(s) == case.extra["schema"] && (holder_p == Some(&Value::Object(named.clone())) || holder_p == Some(&json!({"type": "string"}))) && doc.pointer("/definitions/Holder/required") == Some(&json!(["q"])) && doc.pointer("/definitions/Holder/properties/q") == Some(&json!({"type": "integer"}))
    }
    fn predicate(&self, name: &str, case: &Value, v: &Violation) -> bool {
        super::predicates::check(name, case, v)
    }
}

fn droppable_default(v: &Value) -> bool {
    matches!(v, Value::Null) || v == &json!([]) || v == &json!({})
}

/// default ⊑ realised (extra members in the realised value come from nested defaults)
fn contained_default(d: &Value, w: &Value) -> Result<(), (String, String)> {
    fn go(d: &Value, w: &Value, path: &str) -> Result<(), (String, String)> {
        match (d, w) {
            (Value::Object(a), Value::Object(b)) => {
                for (k, x) in a {
                    match b.get(k) {
                        Some(y) => go(x, y, &format!("{path}/{k}"))?,
                        None => {
                            if !droppable_default(x) {
                                return Err((format!("{path}/{k}"), "member missing".into()));
                            }
                        }
                    }
                }
                Ok(())
            }
            (Value::Array(a), Value::Array(b)) => {
                if a.len() != b.len() {
                    return Err((path.to_string(), "array length".into()));
                }
                let pos = a.iter().zip(b).enumerate().try_for_each(|(i, (x, y))| go(x, y, &format!("{path}/{i}")));
                if pos.is_err() && a.iter().all(|x| !x.is_array() && !x.is_object()) {
                    let mut sa: Vec<String> = a.iter().map(|x| x.to_string()).collect();
                    let mut sb: Vec<String> = b.iter().map(|x| x.to_string()).collect();
                    sa.sort();
                    sb.sort();
                    if sa == sb {
                        return Ok(());
                    }
                }
                pos
            }
            (Value::Number(a), Value::Number(b)) => {
                let same = match (a.as_i64(), b.as_i64(), a.as_u64(), b.as_u64()) {
                    (Some(x), Some(y), _, _) => x == y,
                    (_, _, Some(x), Some(y)) => x == y,
                    _ => match (a.as_f64(), b.as_f64()) {
                        // f32-typed members come back with f32 precision
                        (Some(x), Some(y)) => x == y || (x as f32) == (y as f32),
                        _ => false,
                    },
                };
                if same {
                    Ok(())
                } else {
                    Err((path.to_string(), "value".into()))
                }
            }
            (a, b) if droppable_default(a) && b.is_null() => Ok(()),
            (a, b) => {
                if a == b {
                    Ok(())
                } else {
                    Err((path.to_string(), "value".into()))
                }
            }
        }
    }
    go(d, w, "")
}
