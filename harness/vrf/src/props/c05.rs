//! C05 -- constraints represented in a generated type cannot be bypassed.

use super::common::*;
use super::values::*;
use crate::analyse::Index;
use crate::case::*;
use crate::compile::{CompileStatus, ProbeResult};
use crate::engine::*;
use crate::gen::instance::{mutants_opt, Inst};
use crate::gen::{self, schema as gs, G};
use crate::ingest::TypeFact;
use crate::py::Py;
use serde_json::{json, Value};
use std::collections::BTreeMap;

pub struct C05;

/// which conversions a type offers is read from the emitted impls
pub fn want_conversions(ix: &Index, f: &TypeFact, op: &str) -> Option<&'static str> {
    let has = |t: &str| ix.impls.iter().any(|i| i.self_ty == f.ident && i.trait_ == t);
    match op {
        "de" => Some("de"),
        "rt" => Some("rt"),
        "parse" if has("::std::str::FromStr") => Some("parse"),
        "try_from_str" if has("::std::convert::TryFrom<&str>") => Some("try_from_str"),
        "try_from_ref_string" if has("::std::convert::TryFrom<&::std::string::String>") => Some("try_from_ref_string"),
        "try_from_string" if has("::std::convert::TryFrom<::std::string::String>") => Some("try_from_string"),
        "display" if has("::std::fmt::Display") => Some("display"),
        _ => None,
    }
}

pub const CONV_OPS: &[&str] = &["parse", "try_from_str", "try_from_ref_string", "try_from_string"];

fn probe_strings(g: &mut G, schema: &Value) -> Vec<String> {
    let mut out: Vec<String> = vec!["".into(), "a".into(), "zz-not-a-member".into(), "é".into(), "名名".into(), "\u{1F600}".into()];
    if let Some(vals) = schema.get("enum").and_then(|e| e.as_array()) {
        for v in vals.iter().filter_map(|v| v.as_str()) {
            out.push(v.to_string());
            out.push(v.to_uppercase());
            out.push(crate::gen::names::heck_pascal(v));
        }
    }
    if let Some(vals) = schema.get("not").and_then(|n| n.get("enum")).and_then(|e| e.as_array()) {
        for v in vals.iter().filter_map(|v| v.as_str()) {
            out.push(v.to_string());
        }
    }
    if let Some(p) = schema.get("pattern").and_then(|p| p.as_str()).and_then(gs::find_pattern) {
        out.extend(p.good.iter().map(|s| s.to_string()));
        out.extend(p.bad.iter().map(|s| s.to_string()));
    }
    let min = schema.get("minLength").and_then(|v| v.as_u64());
    let max = schema.get("maxLength").and_then(|v| v.as_u64());
    for b in [min, max].into_iter().flatten() {
        for n in [b.saturating_sub(1), b, b + 1] {
            // 1-, 2-, 3- and 4-byte scalars: byte length != scalar count
            for c in ['a', 'é', '名', '\u{1F600}'] {
                out.push(std::iter::repeat(c).take(n as usize).collect());
            }
        }
    }
    let _ = g;
    out.sort();
    out.dedup();
    out
}

pub fn gen_c05_case(g: &mut G) -> Value {
    let cfg = gs::Cfg::enforced();
    let mut doc = gs::document(g, &cfg);
    if let Some(o) = doc.as_object_mut() {
        o.retain(|k, _| k == "definitions" || k == "$schema");
    }
    // a fixed length that only emerges from a conjunction of two array schemas
    if g.chance(1, 4) {
        let item = if g.chance(1, 2) { json!({"type": "integer"}) } else { json!({"type": "string"}) };
        let n = 2 + g.below(2) as u64;
        let lower = g.below(n as usize) as u64;
        let mut a = json!({"type": "array", "items": item, "minItems": lower});
        let mut b = json!({"type": "array", "minItems": n, "maxItems": n});
        if g.chance(1, 3) {
            a["maxItems"] = json!(n + 1 + g.below(2) as u64);
        }
        if g.chance(1, 2) {
            std::mem::swap(&mut a, &mut b);
        }
        doc["definitions"]["ConjoinedLength"] = json!({"allOf": [a, b]});
    }
    let names = gs::def_names(&doc);
    let mut roots = vec![];
    let mut probes = vec![];
    for (ri, n) in names.iter().enumerate() {
        roots.push(RootSel::Ref { r: format!("#/definitions/{n}") });
        let schema = conjoined_equivalent(&doc["definitions"][n]).unwrap_or_else(|| doc["definitions"][n].clone());
        let mut inst = Inst::new(&doc);
        for k in 0..5 {
            inst.boundary = k % 2 == 1;
            let v = inst.gen(g, &schema, 3);
            for (t, m) in mutants_opt(g, &v, 8, false) {
                probes.push(Probe { root: ri, op: "de".into(), arg: m, tag: t });
            }
            probes.push(Probe { root: ri, op: "de".into(), arg: v, tag: "valid-by-construction".into() });
        }
        // string probes for conversion agreement
        if schema.get("type") == Some(&json!("string")) || schema.get("enum").is_some() || schema.get("not").is_some() {
            for s in probe_strings(g, &schema) {
                probes.push(Probe { root: ri, op: "de".into(), arg: json!(s), tag: "string-probe".into() });
            }
        }
    }
    let mut seen = std::collections::BTreeSet::new();
    probes.retain(|p| seen.insert((p.root, p.arg.to_string())));
    // conversions on every string argument
    let mut conv = vec![];
    for p in &probes {
        if p.arg.is_string() {
            for op in CONV_OPS {
                conv.push(Probe { root: p.root, op: op.to_string(), arg: p.arg.clone(), tag: p.tag.clone() });
            }
        }
    }
    probes.extend(conv);
    let case = Case { history: vec![Step::Root { doc }], roots, probes, extra: json!({"source": "E"}), ..Default::default() };
    gen::to_value(&case)
}

/// `allOf [array(items T, minItems a [, maxItems c]), array(minItems n, maxItems n)]` (either
/// order) with a <= n <= c denotes the fixed-length array `[T; n]`.
pub fn conjoined_equivalent(s: &Value) -> Option<Value> {
    let o = s.as_object()?;
    if o.len() != 1 {
        return None;
    }
    let bs = o.get("allOf")?.as_array()?;
    if bs.len() != 2 {
        return None;
    }
    let (a, b) = if bs[0].get("items").is_some() { (&bs[0], &bs[1]) } else { (&bs[1], &bs[0]) };
    let (ao, bo) = (a.as_object()?, b.as_object()?);
    if !ao.keys().all(|k| matches!(k.as_str(), "type" | "items" | "minItems" | "maxItems")) || !bo.keys().all(|k| matches!(k.as_str(), "type" | "minItems" | "maxItems")) {
        return None;
    }
    if ao.get("type") != Some(&json!("array")) || bo.get("type") != Some(&json!("array")) {
        return None;
    }
    let item = ao.get("items")?;
    if item != &json!({"type": "integer"}) && item != &json!({"type": "string"}) {
        return None;
    }
    let n = bo.get("minItems")?.as_u64()?;
    if bo.get("maxItems")?.as_u64()? != n || n == 0 || n > 4 {
        return None;
    }
    let lo = ao.get("minItems")?.as_u64()?;
    let hi = ao.get("maxItems").map(|m| m.as_u64()).unwrap_or(Some(u64::MAX))?;
    if lo > n || hi < n {
        return None;
    }
    Some(json!({"type": "array", "items": item, "minItems": n, "maxItems": n}))
}

fn has_constraints(s: &Value) -> bool {
    let Some(o) = s.as_object() else { return false };
    let t = o.get("type").and_then(|t| t.as_str());
    (t == Some("string") && (o.contains_key("minLength") || o.contains_key("maxLength") || o.contains_key("pattern")))
        || o.contains_key("not")
        || (o.contains_key("enum") && t.is_some() && t != Some("string"))
}

impl Property for C05 {
    fn id(&self) -> &'static str {
        "C05"
    }
    fn rule(&self) -> String {
        "an evaluation is one generated case: a document from the enforced grammar E (only constraints typify represents: string length/pattern, string and typed enums, not-enum deny lists, required, closed objects, fixed tuples/arrays, tagged unions, scalar JSON types) with valid instances, single-edit mutants and boundary strings (1-4 byte scalars); python classifies every instance; non-trivial = at least one python-invalid mutant or one accepted conversion probe; distinct by canonical JSON of the case".into()
    }
    fn assumptions(&self) -> Vec<String> {
        vec![
            "python jsonschema Draft7Validator decides which mutants are invalid".into(),
            "only constraints from the property's list occur in E, so every python-invalid instance violates a represented constraint".into(),
            "which conversions exist is read from the emitted impls".into(),
        ]
    }
    fn generate(&self, tier: Tier, seed: u64) -> Vec<Value> {
        gen::draw(seed, "C05", tier.pick(300, 10000), gen_c05_case)
    }
    fn prepare(&self, case_v: &Value) -> Unit {
        let mut ops = vec!["de"];
        ops.extend(CONV_OPS);
        let p = prepare_values(case_v, &want_conversions, &ops);
        let mut unit = p.unit;
        // static half: constrained newtypes expose neither their field nor an
        // unchecked From<Inner>
        if let (Some(ix), Ok(case)) = (p.index.as_ref(), parse_case(case_v)) {
            let doc = history_document(&case);
            for (ri, root) in case.roots.iter().enumerate() {
                let RootSel::Ref { r } = root else { continue };
                let Some(schema) = doc.pointer(&r[1..]) else { continue };
                let Some(ident) = p.root_idents.get(ri).cloned().flatten() else { continue };
                if !has_constraints(schema) {
                    continue;
                }
                let Some(item) = ix.items.get(&ident) else { continue };
                if item.kind != "tuple_struct" {
                    continue;
                }
                *unit.counters.entry("constrained_newtypes_scanned".into()).or_default() += 1;
                if item.fields.iter().any(|f| f.is_pub) {
                    unit.violations.push(Violation::new("constrained-newtype-pub-field", format!("{ident} has a public field although its schema {} carries constraints", schema)));
                }
                let inner = item.fields.first().map(|f| f.ty.clone()).unwrap_or_default();
                if ix.impls.iter().any(|i| i.self_ty == ident && i.trait_ == format!("::std::convert::From<{inner}>")) {
                    unit.violations.push(Violation::new("constrained-newtype-unchecked-from", format!("{ident} implements From<{inner}> although its schema {} carries constraints", schema)));
                }
            }
        }
        unit
    }
    fn in_domain(&self, case_v: &Value) -> bool {
        let Ok(case) = parse_case(case_v) else { return false };
        if case.history.len() != 1 || case.settings != Settings::default() {
            return false;
        }
        let Step::Root { doc } = &case.history[0] else { return false };
        // the conjoined-length definition is judged through the array it denotes
        let mut doc = doc.clone();
        if let Some(defs) = doc.get_mut("definitions").and_then(|d| d.as_object_mut()) {
            for (_, d) in defs.iter_mut() {
                if let Some(eq) = conjoined_equivalent(d) {
                    *d = eq;
                }
            }
        }
        gs::doc_in_enforced(&doc)
    }
    fn judge(&self, case_v: &Value, unit: &Unit, compile: &CompileStatus, probes: &[ProbeResult], py: &mut Py) -> Result<Judged, String> {
        let mut j = Judged::default();
        if !compiled_ok(compile, &mut j)? {
            return Ok(j);
        }
        let case = parse_case(case_v)?;
        let de_idx: Vec<usize> = unit.probes.iter().enumerate().filter(|(_, p)| p.op == "de").map(|(i, _)| i).collect();
        let de_probes: Vec<Probe> = de_idx.iter().map(|i| unit.probes[*i].clone()).collect();
        let verdicts = classify(&case, &de_probes, py)?;
        let mut nontrivial = false;
        let mut de_ok: BTreeMap<(usize, String), bool> = BTreeMap::new();
        for (k, i) in de_idx.iter().enumerate() {
            let p = &unit.probes[*i];
            let r = &probes[*i];
            if let ProbeResult::NotRun = r {
                return Err("probe not run on a compiled module".into());
            }
            de_ok.insert((p.root, p.arg.to_string()), r.is_ok());
            match verdicts[k] {
                Some(false) => {
                    *j.counters.entry("invalid_instances".into()).or_default() += 1;
                    nontrivial = true;
                    let class = p.tag.strip_prefix("mutant:").unwrap_or(&p.tag);
                    match r {
                        ProbeResult::Err(_) => {}
                        ProbeResult::Ok(_) => j.violations.push(Violation::new(format!("invalid-accepted:{class}"), format!("root {} ({:?}): {} violates the schema but from_str accepts it", p.root, case.roots.get(p.root), p.arg))),
                        other => j.violations.push(Violation::new("invalid-panic", format!("root {} instance {}: {}", p.root, p.arg, other.brief()))),
                    }
                }
                Some(true) => *j.counters.entry("valid_instances".into()).or_default() += 1,
                None => {}
            }
        }
        // conversions agree with Deserialize on every probed string
        for (p, r) in unit.probes.iter().zip(probes) {
            if p.op == "de" {
                continue;
            }
            if let ProbeResult::NotRun = r {
                return Err("probe not run on a compiled module".into());
            }
            // agreement is demanded of types whose wire form is always a string
            let doc = history_document(&case);
            let is_string_typed = match case.roots.get(p.root) {
                Some(RootSel::Ref { r }) => doc.pointer(&r[1..]).and_then(|s| s.get("type")) == Some(&json!("string")),
                _ => false,
            };
            if !is_string_typed {
                continue;
            }
            *j.counters.entry("conversion_probes".into()).or_default() += 1;
            let Some(d) = de_ok.get(&(p.root, p.arg.to_string())) else { continue };
            if r.is_ok() {
                nontrivial = true;
            }
            if r.is_ok() != *d {
                j.violations.push(Violation::new(format!("conversion-disagrees:{}", p.op), format!("root {} ({:?}) string {}: from_str is_ok={} but {} gives {}", p.root, case.roots.get(p.root), p.arg, d, p.op, r.brief())));
            }
        }
        j.nontrivial = Some(nontrivial);
        let mut seen = std::collections::BTreeSet::new();
        j.violations.retain(|v| seen.insert(v.symptom.clone()));
        Ok(j)
    }
    fn predicate(&self, name: &str, case: &Value, v: &Violation) -> bool {
        super::predicates::check(name, case, v)
    }
}
