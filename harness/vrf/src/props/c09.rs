//! C09 -- allOf means intersection, independent of subschema order.

use super::common::*;
use super::values::*;
use crate::case::*;
use crate::compile::{CompileStatus, ProbeResult};
use crate::engine::*;
use crate::gen::instance::{mutants, Inst};
use crate::gen::{self, G};
use crate::ingest::{self, Outcome};
use crate::py::Py;
use serde_json::{json, Map, Value};

pub struct C09;

fn prop_pool() -> Vec<(&'static str, Value)> {
    vec![
        ("a", json!({"type": "integer"})),
        ("b", json!({"type": "string"})),
        ("c", json!({"type": "boolean"})),
        ("d", json!({"type": "array", "items": {"type": "integer"}})),
        ("e", json!({"type": "string", "enum": ["x", "y", "z"]})),
    ]
}

fn object_member(g: &mut G) -> Value {
    let pool = prop_pool();
    let mut props = Map::new();
    let mut names = vec![];
    for (n, s) in &pool {
        if g.chance(2, 5) {
            props.insert(n.to_string(), s.clone());
            names.push(n.to_string());
        }
    }
    if props.is_empty() {
        props.insert("a".into(), pool[0].1.clone());
        names.push("a".into());
    }
    let req: Vec<String> = names.iter().filter(|_| g.chance(1, 2)).cloned().collect();
    let mut o = json!({"type": "object", "properties": props});
    if !req.is_empty() {
        o["required"] = json!(req);
    }
    match g.below(8) {
        0 => o["additionalProperties"] = json!(true),
        // a schema-valued additionalProperties makes the merge order dependent
        // (known finding KF-021): drawn, counted, not emitted
        1 => gen::excluded("allof-member-with-additional-properties-schema", 1),
        _ => {}
    }
    o
}

fn member(g: &mut G, has_base: bool) -> Value {
    // a nested oneOf makes the merge order dependent (known finding KF-019):
    // drawn, counted and replaced
    let k = g.weighted(&[6, if has_base { 3 } else { 0 }, 2, 1, 1]);
    let k = if k == 4 {
        gen::excluded("allof-with-nested-oneof", 1);
        0
    } else {
        k
    };
    match k {
        0 => object_member(g),
        1 => json!({"$ref": "#/definitions/Base"}),
        2 => {
            // enum / type restriction on a shared property
            // integer AND number is merged into an uninhabited type (known finding KF-020)
            let k = g.below(5);
            let k = if k == 3 {
                gen::excluded("allof-integer-and-number", 1);
                4
            } else {
                k
            };
            // tuple-form arrays whose item lists differ in length (array item schemas)
            if g.chance(1, 3) {
                return tuple_member(g.below(4));
            }
            // an untyped enumeration of mixed literals on one side, a type restriction on the other
            if g.chance(1, 4) {
                return match g.below(3) {
                    0 => json!({"type": "object", "properties": {"n": {"enum": [1, 2, 3.5, "auto"]}}}),
                    1 => json!({"type": "object", "properties": {"n": {"type": "number"}}, "required": ["n"]}),
                    _ => json!({"type": "object", "properties": {"n": {"type": "number"}}}),
                };
            }
            match k {
                3 => json!({"type": "object", "properties": {"a": {"type": "number"}}}),
                4 => json!({"type": "object", "properties": {"b": {"type": "string", "maxLength": 20}}}),
                0 => json!({"type": "object", "properties": {"e": {"type": "string", "enum": ["x", "y"]}}}),
                1 => json!({"type": "object", "properties": {"e": {"type": "string", "enum": ["y", "z"]}}, "required": ["e"]}),
                _ => json!({"type": "object", "required": ["a"]}),
            }
        }
        3 => json!({"type": "object", "properties": {"d": {"type": "array", "items": {"type": "integer"}}}, "required": ["d"]}),
        _ => nested_one_of(),
    }
}

/// object members constraining the same tuple-typed property `t` with item lists of
/// different length (the shorter one constrains the tail through additionalItems)
fn tuple_member(k: usize) -> Value {
    let t = match k {
        0 => json!({"type": "array", "items": [{"type": "string"}], "additionalItems": {"type": "integer"}, "minItems": 3, "maxItems": 3}),
        1 => json!({"type": "array", "items": [{"type": "string"}, {}, {}], "minItems": 3, "maxItems": 3}),
        2 => json!({"type": "array", "items": [{"type": "string"}, {"type": "integer"}], "additionalItems": {"type": "integer"}, "minItems": 3, "maxItems": 3}),
        _ => json!({"type": "array", "items": [{}, {}, {"type": "integer"}], "minItems": 3, "maxItems": 3}),
    };
    json!({"type": "object", "properties": {"t": t}, "required": ["t"]})
}

/// a nested oneOf whose branches are disjoint (each requires its own key and
/// forbids the other's)
fn nested_one_of() -> Value {
    json!({"oneOf": [
        {"type": "object", "properties": {"p1": {"type": "integer"}}, "required": ["p1"], "not": {"required": ["p2"]}},
        {"type": "object", "properties": {"p2": {"type": "string"}}, "required": ["p2"], "not": {"required": ["p1"]}}
    ]})
}

fn ap_members(ta: &str, tb: &str) -> Vec<Value> {
    vec![
        json!({"type": "object", "properties": {"a": {"type": "integer"}}, "required": ["a"], "additionalProperties": {"type": ta}}),
        json!({"type": "object", "properties": {"a": {"type": "integer"}}, "additionalProperties": {"type": tb}}),
    ]
}

fn unsat_members(g: &mut G) -> Vec<Value> {
    // a required member that is *declared nowhere* and forbidden by a closed sibling
    // yields a permissive type (known finding KF-018): avoided; the declared form is kept
    let k = g.below(4);
    let k = if k == 3 {
        gen::excluded("allof-undeclared-required-but-forbidden", 1);
        2
    } else {
        k
    };
    match k {
        0 => vec![object_member(g), json!({"type": "string"})],
        1 => vec![json!({"type": "object", "properties": {"e": {"type": "string", "enum": ["x"]}}, "required": ["e"]}), json!({"type": "object", "properties": {"e": {"type": "string", "enum": ["y"]}}})],
        _ => {
            // the sibling is closed and does not know the required, declared member
            let closed = if g.chance(1, 2) { json!({"$ref": "#/definitions/Base"}) } else { json!({"type": "object", "properties": {"a": {"type": "integer"}}, "additionalProperties": false}) };
            let mut v = vec![closed, json!({"type": "object", "properties": {"b": {"type": "string"}}, "required": ["b"]})];
            if g.chance(1, 2) {
                v.reverse();
            }
            v
        }
    }
}

fn permutations(n: usize) -> Vec<Vec<usize>> {
    fn go(cur: &mut Vec<usize>, used: &mut Vec<bool>, n: usize, out: &mut Vec<Vec<usize>>) {
        if cur.len() == n {
            out.push(cur.clone());
            return;
        }
        for i in 0..n {
            if !used[i] {
                used[i] = true;
                cur.push(i);
                go(cur, used, n, out);
                cur.pop();
                used[i] = false;
            }
        }
    }
    let mut out = vec![];
    go(&mut vec![], &mut vec![false; n], n, &mut out);
    out
}

pub fn build_doc(members: &[Value], base: &Value) -> (Value, usize) {
    let perms = permutations(members.len());
    let mut defs = Map::new();
    defs.insert("Base".into(), base.clone());
    for (i, p) in perms.iter().enumerate() {
        let list: Vec<Value> = p.iter().map(|k| members[*k].clone()).collect();
        defs.insert(format!("P{:02}", i), json!({"allOf": list}));
    }
    (json!({"definitions": Value::Object(defs)}), perms.len())
}

pub fn gen_c09_case(g: &mut G) -> Value {
    let unsat = g.chance(1, 5);
    // (in unsatisfiable cases Base is a closed object over `a`, so that a reference to it can play the closed sibling)
    let base = if unsat { json!({"type": "object", "properties": {"a": {"type": "integer"}}, "required": ["a"], "additionalProperties": false}) } else { object_member(g) };
    let scalar = !unsat && g.chance(1, 5);
    // both members constrain additional members with a schema of their own
    let both_ap = !unsat && !scalar && g.chance(1, 8);
    let members: Vec<Value> = if unsat {
        unsat_members(g)
    } else if both_ap {
        let (ta, tb) = *g.pick(&[("string", "boolean"), ("integer", "string"), ("string", "string"), ("boolean", "boolean")]);
        let mut v = ap_members(ta, tb);
        if g.chance(1, 2) {
            v.reverse();
        }
        v
    } else if scalar {
        // conjunction of scalar restrictions: an enumeration of mixed literals and a type
        let lits = match g.below(3) {
            0 => json!([1, 2, 3.5, "auto"]),
            1 => json!([10, 20, "auto"]),
            _ => json!(["a", 7, 2.5, true]),
        };
        let ty = *g.pick(&["number", "number", "integer", "string"]);
        let mut v = if g.chance(1, 3) {
            // a generic and a specific address format: the conjunction is the specific one
            let specific = *g.pick(&["ipv4", "ipv6"]);
            vec![json!({"type": "string", "format": specific}), json!({"type": "string", "format": "ip"})]
        } else {
            vec![json!({"enum": lits}), json!({"type": ty})]
        };
        if g.chance(1, 2) {
            v.reverse();
        }
        v
    } else if g.chance(1, 5) {
        // array item schemas: two or three members constraining the same tuple-typed property
        let mut ks = vec![0usize, 1, 2, 3];
        g.shuffle(&mut ks);
        let mut v: Vec<Value> = ks.into_iter().take(2 + g.below(2)).map(tuple_member).collect();
        if g.chance(1, 3) {
            v.push(object_member(g));
        }
        v
    } else {
        let n = 2 + g.below(3);
        (0..n).map(|_| member(g, true)).collect()
    };
    let (doc, _) = build_doc(&members, &base);
    // candidates
    let inst = Inst::new(&doc);
    let mut cands: Vec<Value> = vec![];
    let mut per_member: Vec<Value> = vec![];
    for m in &members {
        for _ in 0..2 {
            let v = inst.gen(g, m, 3);
            per_member.push(v.clone());
            cands.push(v);
        }
    }
    // member-wise unions
    let mut union = Map::new();
    for v in &per_member {
        if let Some(o) = v.as_object() {
            for (k, x) in o {
                union.entry(k.clone()).or_insert(x.clone());
            }
        }
    }
    let u = Value::Object(union);
    for (_, m) in mutants(g, &u, 8) {
        cands.push(m);
    }
    // every literal of the mixed enumeration, on the shared property and on its own
    if let Some(uo) = u.as_object() {
        if members.iter().any(|m| m["properties"].get("n").is_some()) {
            for lit in [json!(1), json!(2), json!(3.5), json!("auto"), json!(7), json!(2.0)] {
                let mut o = uo.clone();
                o.insert("n".into(), lit);
                cands.push(Value::Object(o));
            }
        }
    }
    if both_ap {
        for extra in [json!("s"), json!(true), json!(3), json!(2.5)] {
            cands.push(json!({"a": 1, "more": extra}));
        }
        cands.push(json!({"a": 1}));
        cands.push(json!({}));
    }
    if scalar {
        for lit in [json!(1), json!(2), json!(3.5), json!("auto"), json!(10), json!(20), json!("a"), json!(7), json!(2.5), json!(true), json!(4), json!("zz"), json!("127.0.0.1"), json!("::1"), json!("10.1.2.3")] {
            cands.push(lit);
        }
    }
    cands.push(u);
    cands.push(inst.gen(g, &doc["definitions"]["P00"], 3));
    let mut seen = std::collections::BTreeSet::new();
    cands.retain(|c| seen.insert(c.to_string()));
    json!({"members": members, "base": base, "candidates": cands, "unsat_by_construction": unsat})
}

impl Property for C09 {
    fn id(&self) -> &'static str {
        "C09"
    }
    fn rule(&self) -> String {
        "one case = an allOf composition of 2-4 subschemas (object schemas over a shared property pool with overlapping/disjoint properties, required sets, additionalProperties true/schema, a reference to a base object, enum and required restrictions on shared properties, array items, a nested oneOf), or a conjunction unsatisfiable by construction; all permutations (<=24) become sibling definitions; candidates = per-member instances, their member-wise union, single-edit mutants of the union; python judges every candidate against the original allOf; non-trivial = at least one python-valid and one python-invalid candidate, or an unsatisfiable conjunction; distinct by canonical JSON".into()
    }
    fn assumptions(&self) -> Vec<String> {
        vec![
            "python jsonschema Draft7Validator decides validity under the original allOf".into(),
            "permutations whose ingestion fails are counted and excluded; accepting some orders and refusing others is a violation".into(),
        ]
    }
    fn generate(&self, tier: Tier, seed: u64) -> Vec<Value> {
        gen::draw(seed, "C09", tier.pick(300, 6000), gen_c09_case)
    }
    fn prepare(&self, c: &Value) -> Unit {
        let (Some(members), Some(cands)) = (c["members"].as_array(), c["candidates"].as_array()) else { return invalid_unit("not a C09 case".into()) };
        if members.len() < 2 || members.len() > 4 || !c["base"].is_object() {
            return invalid_unit("bad member count".into());
        }
        let (doc, nperm) = build_doc(members, &c["base"]);
        let roots: Vec<RootSel> = (0..nperm).map(|i| RootSel::Ref { r: format!("#/definitions/P{:02}", i) }).collect();
        let mut probes = vec![];
        for i in 0..nperm {
            for cand in cands {
                probes.push(Probe { root: i, op: "rt".into(), arg: cand.clone(), tag: String::new() });
            }
        }
        let case = Case { history: vec![Step::Root { doc: doc.clone() }], roots, probes, ..Default::default() };
        let cv = gen::to_value(&case);
        let mut p = prepare_values(&cv, &want_serde, &["rt"]);
        if p.unit.outcome != Outcome::Ok && p.unit.outcome != Outcome::Invalid {
            // which permutations are refused on their own?
            let mut ok = 0;
            let mut bad = 0;
            let mut first_msg = String::new();
            for i in 0..nperm {
                let name = format!("P{:02}", i);
                let single = json!({"definitions": {"Base": doc["definitions"]["Base"], &name: doc["definitions"][&name]}});
                let ing = ingest::ingest(&Case { history: vec![Step::Root { doc: single }], ..Default::default() });
                if ing.outcome == Outcome::Ok {
                    ok += 1;
                } else {
                    bad += 1;
                    if first_msg.is_empty() {
                        first_msg = format!("{name}: {:?} {}", ing.outcome, ing.message);
                    }
                }
            }
            if ok > 0 && bad > 0 {
                p.unit.violations.push(Violation::new("order-dependent-acceptance", format!("{ok} of {nperm} orders of the same allOf are accepted, {bad} are refused (e.g. {first_msg})")));
                p.unit.outcome = Outcome::Ok;
            }
        }
        p.unit.info["case"] = cv;
        p.unit
    }
    fn in_domain(&self, c: &Value) -> bool {
        let Some(members) = c["members"].as_array() else { return false };
        if members.len() < 2 || members.len() > 4 {
            return false;
        }
        // members stay inside the member grammar: typed objects over the pool,
        // the Base reference, the oneOf of two typed objects, or a plain string type
        let pool = prop_pool();
        let obj_ok = |o: &Value| -> bool {
            let Some(m) = o.as_object() else { return false };
            m.get("type") == Some(&json!("object"))
                && m.keys().all(|k| matches!(k.as_str(), "type" | "properties" | "required" | "additionalProperties"))
                && (m.get("properties").and_then(|p| p.as_object()).map(|p| !p.is_empty()).unwrap_or(false) || m.get("required") == Some(&json!(["a"])))
                && m.get("properties").map(|p| p.as_object().map(|p| p.iter().all(|(k, v)| pool.iter().any(|(n, s)| n == k && (s == v || (k == "a" && v == &json!({"type": "number"})) || (k == "b" && v == &json!({"type": "string", "maxLength": 20})) || (k == "e" && v.get("enum").and_then(|e| e.as_array()).map(|e| !e.is_empty() && e.iter().all(|x| ["x", "y", "z"].contains(&x.as_str().unwrap_or("")))).unwrap_or(false) && v.get("type") == Some(&json!("string"))))) || ((k == "p1" || k == "p2") && (v == &json!({"type": "integer"}) || v == &json!({"type": "string"}))))).unwrap_or(false)).unwrap_or(true)
                && m.get("required").map(|r| r.as_array().map(|r| r.iter().all(|x| x.is_string())).unwrap_or(false)).unwrap_or(true)
                && m.get("additionalProperties").map(|a| a.is_boolean() || a == &json!({"type": "integer"})).unwrap_or(true)
                && m.get("required").and_then(|r| r.as_array()).map(|r| r.iter().all(|q| q == "a" || m.get("properties").and_then(|p| p.get(q.as_str().unwrap_or(""))).is_some())).unwrap_or(true)
        };
        obj_ok(&c["base"])
            && members.iter().all(|m| {
                (0..4).any(|k| m == &tuple_member(k))
                    || m == &json!({"$ref": "#/definitions/Base"})
                    || m == &json!({"type": "string"})
                    || [("string", "boolean"), ("integer", "string"), ("string", "string"), ("boolean", "boolean")].iter().any(|(x, y)| ap_members(x, y).contains(m))
                    || m == &json!({"type": "string", "format": "ip"})
                    || m == &json!({"type": "string", "format": "ipv4"})
                    || m == &json!({"type": "string", "format": "ipv6"})
                    || m == &json!({"type": "number"})
                    || m == &json!({"type": "integer"})
                    || (m.as_object().map(|o| o.len() == 1).unwrap_or(false) && m.get("enum").and_then(|e| e.as_array()).map(|e| !e.is_empty() && e.iter().all(|x| !x.is_object() && !x.is_array() && !x.is_null())).unwrap_or(false))
                    || m == &json!({"type": "object", "properties": {"n": {"enum": [1, 2, 3.5, "auto"]}}})
                    || m == &json!({"type": "object", "properties": {"n": {"type": "number"}}, "required": ["n"]})
                    || m == &json!({"type": "object", "properties": {"n": {"type": "number"}}})
                    || obj_ok(m)
                    || m == &nested_one_of()
            })
            && c["candidates"].is_array()
    }
    fn judge(&self, c: &Value, unit: &Unit, compile: &CompileStatus, probes: &[ProbeResult], py: &mut Py) -> Result<Judged, String> {
        let mut j = Judged::default();
        if !compiled_ok(compile, &mut j)? {
            return Ok(j);
        }
        let case = parse_case(&unit.info["case"])?;
        let cands: Vec<Value> = c["candidates"].as_array().cloned().unwrap_or_default();
        let doc = history_document(&case);
        let verdicts = py.validate(&doc, Some("#/definitions/P00"), &cands)?;
        let nperm = case.roots.len();
        let nc = cands.len();
        if unit.probes.len() != nperm * nc {
            return Ok(j); // some permutation type could not be addressed
        }
        let any_valid = verdicts.iter().any(|v| *v == Some(true));
        let any_invalid = verdicts.iter().any(|v| *v == Some(false));
        let unsat = c["unsat_by_construction"].as_bool().unwrap_or(false);
        j.nontrivial = Some((any_valid && any_invalid) || unsat);
        if unsat {
            j.classes.push("unsatisfiable".into());
        }
        for (ci, cand) in cands.iter().enumerate() {
            let results: Vec<&ProbeResult> = (0..nperm).map(|pi| &probes[pi * nc + ci]).collect();
            if results.iter().any(|r| matches!(r, ProbeResult::NotRun)) {
                return Err("probe not run on a compiled module".into());
            }
            // (1) valid => every order accepts
            if verdicts[ci] == Some(true) {
                if let Some((pi, r)) = results.iter().enumerate().find(|(_, r)| !r.is_ok()) {
                    j.violations.push(Violation::new("valid-under-all-members-rejected", format!("candidate {} is valid under the allOf but order P{:02} gives {}", cand, pi, r.brief())));
                }
            }
            // (2) all orders behave the same
            let first = results[0];
            for (pi, r) in results.iter().enumerate().skip(1) {
                let same = match (first, r) {
                    (ProbeResult::Ok(a), ProbeResult::Ok(b)) => a == b,
                    (ProbeResult::Err(_), ProbeResult::Err(_)) => true,
                    _ => false,
                };
                if !same {
                    j.violations.push(Violation::new("order-changes-behaviour", format!("candidate {}: order P00 gives {} but P{:02} gives {}", cand, first.brief(), pi, r.brief())));
                    break;
                }
            }
            // (3) unsatisfiable => uninhabited
            if unsat && !any_valid {
                if let Some((pi, r)) = results.iter().enumerate().find(|(_, r)| r.is_ok()) {
                    j.violations.push(Violation::new("unsatisfiable-but-inhabited", format!("the conjunction is unsatisfiable, yet order P{:02} accepts {}: {}", pi, cand, r.brief())));
                }
            }
        }
        let mut seen = std::collections::BTreeSet::new();
        j.violations.retain(|v| seen.insert(v.symptom.clone()));
        Ok(j)
    }
    fn predicate(&self, name: &str, case: &Value, v: &Violation) -> bool {
        super::predicates::check(name, case, v)
    }
}
