//! C15, macro half: `import_types!` expansions (nightly -Zunpretty=expanded)
//! against a twin crate holding the builder's output in the same modules, so
//! that derive expansions cancel.

use crate::case::*;
use crate::gen::{self, schema as gs, G};
use quote::ToTokens;
use serde_json::{json, Value};
use std::process::Command;

const MACRO_DIR: &str = "/verif/work/macro-C15";
const TARGET: &str = "/verif/work/target-macro";

/// expansion resolves paths, so the crate names used by x-rust-type cases are
/// made available as aliases of `std` (the substituted path is `<crate>::time::Duration`)
const HEADER: &str = "#![allow(warnings)]\nextern crate std as plain; extern crate std as my_crate; extern crate std as a2b; extern crate std as x_3; extern crate std as renamed0; extern crate std as renamed1; extern crate std as renamed2; extern crate std as renamed3; extern crate std as unlisted;\n";

fn conv_schema() -> Value {
    json!({"type": "integer", "format": "int32", "minimum": 7})
}

/// (macro argument text after `schema = ...,`, translated settings, document)
pub fn gen_macro_case(g: &mut G) -> Value {
    let mut cfg = gs::Cfg::faithful();
    cfg.max_defs = 3;
    let mut doc = gs::document(g, &cfg);
    let mut s = Settings::default();
    let mut opts: Vec<String> = vec![];
    let nd = g.weighted(&[2, 3, 2]);
    let mut pool = vec!["PartialEq", "Eq", "::std::cmp::PartialOrd"];
    g.shuffle(&mut pool);
    let ds: Vec<&str> = pool.into_iter().take(nd).collect();
    if !ds.is_empty() {
        opts.push(format!("derives = [{}]", ds.join(", ")));
        for d in &ds {
            // the macro records `path.to_token_stream().to_string()`
            s.derives.push(syn::parse_str::<syn::Path>(d).unwrap().to_token_stream().to_string());
        }
    }
    if g.chance(1, 2) {
        let b = g.chance(2, 3);
        opts.push(format!("struct_builder = {b}"));
        s.struct_builder = b;
    }
    if g.chance(1, 3) {
        let m = *g.pick(&["::std::collections::BTreeMap", "std::collections::BTreeMap"]);
        opts.push(format!("map_type = {:?}", m));
        s.map_type = Some(m.to_string());
    }
    if g.chance(1, 2) {
        let p = *g.pick(&["Generate", "Allow", "Deny"]);
        opts.push(format!("unknown_crates = {p}"));
        s.unknown_crates = Some(p.to_string());
        doc["definitions"]["ExtUnknown"] = json!({"type": "object", "properties": {"marker9": {"type": "string"}}, "x-rust-type": {"crate": "unlisted", "version": "1.0.0", "path": "unlisted::time::Duration"}});
        doc["definitions"]["ExtUnknownUser"] = json!({"type": "object", "properties": {"held": {"$ref": "#/definitions/ExtUnknown"}}, "required": ["held"]});
    }
    let nc = g.weighted(&[2, 3, 2]);
    let mut names = vec!["plain", "my-crate", "a2b", "x_3"];
    g.shuffle(&mut names);
    let mut crate_entries = vec![];
    for (i, name) in names.into_iter().take(nc).enumerate() {
        let version = *g.pick(&["1.0.0", "0.3.7", "*", "!"]);
        let rename = if g.chance(1, 3) { Some(format!("renamed{i}")) } else { None };
        match &rename {
            Some(r) => crate_entries.push(format!("{:?} = {:?}", r, format!("{name}@{version}"))),
            None => crate_entries.push(format!("{:?} = {:?}", name, version)),
        }
        s.crates.insert(name.to_string(), CrateCfg { version: version.to_string(), rename });
        let req = *g.pick(&["1.0.0", "^0.3", "*"]);
        doc["definitions"][format!("Ext{i}")] = json!({"type": "object", "properties": {format!("marker{i}"): {"type": "string"}}, "x-rust-type": {"crate": name, "version": req, "path": format!("{}::time::Duration", name.replace('-', "_"))}});
        doc["definitions"][format!("ExtUser{i}")] = json!({"type": "object", "properties": {"held": {"$ref": format!("#/definitions/Ext{i}")}}, "required": ["held"]});
    }
    if !crate_entries.is_empty() {
        opts.push(format!("crates = {{ {} }}", crate_entries.join(", ")));
    }
    // macro-only options
    doc["definitions"]["PatchMe"] = json!({"type": "object", "properties": {"pa": {"type": "integer"}}});
    doc["definitions"]["ReplaceMe"] = json!({"type": "string", "minLength": 1});
    // a bare alias of the replaced definition: a newtype that forwards exactly the traits the
    // replacement is declared to have
    doc["definitions"]["ReplaceAlias"] = json!({"$ref": "#/definitions/ReplaceMe"});
    doc["definitions"]["ReplaceUnion"] = json!({"oneOf": [{"$ref": "#/definitions/ReplaceMe"}, {"type": "integer"}]});
    doc["definitions"]["Uses"] = json!({"type": "object", "properties": {"p": {"$ref": "#/definitions/PatchMe"}, "r": {"$ref": "#/definitions/ReplaceMe"}, "c": conv_schema()}, "required": ["p", "r"]});
    if g.chance(1, 2) {
        let rename = g.chance(2, 3);
        let der = g.chance(1, 2);
        let mut inner = vec![];
        let mut p = Patch::default();
        if rename {
            inner.push("rename = \"PatchedName\"".to_string());
            p.rename = Some("PatchedName".into());
        }
        if der {
            // a patch may name a derive again that is requested for every type, under the same path
            let multi = ds.iter().find(|d| d.contains("::")).cloned();
            match multi {
                Some(d) if g.chance(1, 2) => {
                    inner.push(format!("derives = [{d}, PartialEq]"));
                    p.derives.push(syn::parse_str::<syn::Path>(d).unwrap().to_token_stream().to_string());
                    p.derives.push("PartialEq".into());
                }
                _ => {
                    inner.push("derives = [PartialEq]".to_string());
                    p.derives.push("PartialEq".into());
                }
            }
        }
        opts.push(format!("patch = {{ PatchMe = {{ {} }} }}", inner.join(", ")));
        s.patch.insert("PatchMe".into(), p);
    }
    if g.chance(1, 2) {
        let (suffix, impls): (&str, Vec<&str>) = match g.below(7) {
            0 => ("", vec!["FromStr", "Display"]),
            1 => (": ?Display", vec!["FromStr"]),
            2 => (": Default", vec!["FromStr", "Display", "Default"]),
            3 => (": Default + ?FromStr", vec!["Display", "Default"]),
            4 => (": ?FromStr", vec!["Display"]),
            5 => (": ?Display + Default", vec!["FromStr", "Default"]),
            _ => (": ?FromStr + ?Display", vec![]),
        };
        opts.push(format!("replace = {{ ReplaceMe = ::std::string::String{suffix} }}"));
        s.replace.insert("ReplaceMe".into(), Replace { ty: ":: std :: string :: String".into(), impls: impls.iter().map(|x| x.to_string()).collect() });
    }
    if g.chance(1, 2) {
        opts.push("convert = { { type = \"integer\", format = \"int32\", minimum = 7 } = ::std::primitive::i32: Display }".to_string());
        s.convert.push(Convert { schema: conv_schema(), ty: ":: std :: primitive :: i32".into(), impls: vec!["Display".into(), "FromStr".into()] });
    }
    json!({"front": "macro", "doc": doc, "opts": opts, "settings": s, "features": if opts.is_empty() { vec![] } else { vec!["non-default-options"] }})
}

fn write_crate(dir: &str, name: &str, lib_rs: &str, with_typify: bool) -> Result<(), String> {
    std::fs::create_dir_all(format!("{dir}/src")).map_err(|e| e.to_string())?;
    std::fs::create_dir_all(format!("{dir}/.cargo")).map_err(|e| e.to_string())?;
    std::fs::write(format!("{dir}/.cargo/config.toml"), "[source.crates-io]\nreplace-with = \"vendored\"\n\n[source.vendored]\ndirectory = \"/verif/work/vendor\"\n\n[net]\noffline = true\n").map_err(|e| e.to_string())?;
    let typify = if with_typify { "typify = { path = \"/repo/typify\" }\n" } else { "" };
    std::fs::write(format!("{dir}/Cargo.toml"), format!("[package]\nname = \"{name}\"\nversion = \"0.0.0\"\nedition = \"2021\"\n\n[dependencies]\n{typify}serde = {{ version = \"1.0.219\", features = [\"derive\"] }}\nserde_json = \"1.0.140\"\nchrono = {{ version = \"0.4.39\", features = [\"serde\"] }}\nuuid = {{ version = \"1.16.0\", features = [\"serde\"] }}\nregress = \"0.10.3\"\n\n[workspace]\n")).map_err(|e| e.to_string())?;
    std::fs::copy("/repo/Cargo.lock", format!("{dir}/Cargo.lock")).ok();
    std::fs::write(format!("{dir}/src/lib.rs"), lib_rs).map_err(|e| e.to_string())?;
    Ok(())
}

/// expand a crate; Ok(text) or Err(stderr)
fn expand(dir: &str) -> Result<String, String> {
    let out = Command::new("cargo")
        .arg("+nightly")
        .args(["rustc", "--lib", "--offline", "-q", "--", "-Zunpretty=expanded", "-Awarnings"])
        .current_dir(dir)
        .env("CARGO_TARGET_DIR", TARGET)
        .env("CARGO_NET_OFFLINE", "true")
        .output()
        .map_err(|e| format!("cargo +nightly: {e}"))?;
    if out.status.success() {
        Ok(String::from_utf8_lossy(&out.stdout).to_string())
    } else {
        Err(String::from_utf8_lossy(&out.stderr).to_string())
    }
}

fn module_items(file: &syn::File, name: &str) -> Option<Vec<String>> {
    for item in &file.items {
        if let syn::Item::Mod(m) = item {
            if m.ident == name {
                let items = &m.content.as_ref()?.1;
                return Some(
                    items
                        .iter()
                        .filter(|i| !matches!(i, syn::Item::Const(c) if c.ident == "_" && matches!(&*c.ty, syn::Type::Reference(_))))
                        .map(|i| i.to_token_stream().to_string())
                        .collect(),
                );
            }
        }
    }
    None
}

/// builder output for a case, produced in a child process (typify never runs
/// in the orchestrator)
fn builder_tokens(settings: &Value, doc: &Value) -> Result<String, String> {
    use std::io::Write;
    let exe = std::env::current_exe().map_err(|e| e.to_string())?;
    let mut child = Command::new(exe).arg("render").stdin(std::process::Stdio::piped()).stdout(std::process::Stdio::piped()).stderr(std::process::Stdio::null()).spawn().map_err(|e| e.to_string())?;
    let req = json!({"settings": settings, "text": doc.to_string()}).to_string();
    child.stdin.take().unwrap().write_all(req.as_bytes()).map_err(|e| e.to_string())?;
    let out = child.wait_with_output().map_err(|e| e.to_string())?;
    let s = String::from_utf8_lossy(&out.stdout).to_string();
    match s.find(crate::pool::MARK) {
        Some(i) => Ok(s[i + crate::pool::MARK.len()..].to_string()),
        None => Err("render child gave no output".into()),
    }
}

/// Run the macro half for `n` generated cases; each returned case carries its verdict.
pub fn macro_cases(seed: u64, n: usize) -> Result<Vec<Value>, String> {
    run_macro_batch(gen::draw(seed, "C15-macro", n, gen_macro_case), MACRO_DIR)
}

/// Evaluate macro cases (also used for single regression replays).
pub fn run_macro_batch(cases: Vec<Value>, dir: &str) -> Result<Vec<Value>, String> {
    #[allow(non_snake_case)]
    let DIR: &str = dir;
    let mut cases = cases;
    let _ = std::fs::remove_dir_all(DIR);
    std::fs::create_dir_all(format!("{DIR}/a/schemas")).map_err(|e| e.to_string())?;
    // builder reference
    let mut builder: Vec<Result<String, String>> = vec![];
    for c in &cases {
        builder.push(builder_tokens(&c["settings"], &c["doc"]));
    }
    let mut alive: Vec<usize> = (0..cases.len()).collect();
    for (k, c) in cases.iter_mut().enumerate() {
        std::fs::write(format!("{DIR}/a/schemas/c{k}.json"), serde_json::to_string_pretty(&c["doc"]).unwrap()).map_err(|e| e.to_string())?;
        match &builder[k] {
            Ok(t) if t.starts_with("ERR:") => {
                c["result"] = json!({"status": "builder-refuses", "detail": t});
                alive.retain(|x| *x != k);
            }
            Err(e) => return Err(format!("builder reference: {e}")),
            _ => {}
        }
    }
    // twin crate first: it must always expand
    let mut twin = String::from(HEADER);
    for k in &alive {
        twin.push_str(&format!("mod c{k} {{\n{}\n}}\n", builder[*k].as_ref().unwrap()));
    }
    write_crate(&format!("{DIR}/b"), "vrf-macro-twin", &twin, false)?;
    let twin_text = expand(&format!("{DIR}/b")).map_err(|e| format!("twin crate does not expand: {}", e.chars().take(3000).collect::<String>()))?;
    let twin_file = syn::parse_file(&twin_text).map_err(|e| format!("twin expansion does not parse: {e}"))?;
    // macro crate, dropping invocations the macro itself rejects
    let mut macro_file = None;
    for _round in 0..8 {
        let mut lib = String::from(HEADER);
        let mut line_of: Vec<(usize, usize)> = vec![]; // (first line, case)
        for k in &alive {
            let opts: Vec<String> = cases[*k]["opts"].as_array().map(|a| a.iter().filter_map(|x| x.as_str().map(|s| s.to_string())).collect()).unwrap_or_default();
            let first = lib.lines().count() + 1;
            line_of.push((first, *k));
            let mut args = vec![format!("schema = \"schemas/c{k}.json\"")];
            args.extend(opts);
            lib.push_str(&format!("mod c{k} {{\n    typify::import_types!(\n        {}\n    );\n}}\n", args.join(",\n        ")));
        }
        write_crate(&format!("{DIR}/a"), "vrf-macro-front", &lib, true)?;
        match expand(&format!("{DIR}/a")) {
            Ok(text) => {
                macro_file = Some(syn::parse_file(&text).map_err(|e| format!("macro expansion does not parse: {e}"))?);
                break;
            }
            Err(stderr) => {
                // locate failing invocations: "--> src/lib.rs:LINE:COL"
                let mut bad = std::collections::BTreeMap::new();
                let mut last_msg = String::new();
                for l in stderr.lines() {
                    if l.starts_with("error") {
                        last_msg = l.to_string();
                    }
                    if let Some(pos) = l.find("src/lib.rs:") {
                        if let Some(line) = l[pos + 11..].split(':').next().and_then(|x| x.parse::<usize>().ok()) {
                            if let Some((_, k)) = line_of.iter().rev().find(|(first, _)| *first <= line) {
                                bad.entry(*k).or_insert(last_msg.clone());
                            }
                        }
                    }
                }
                if bad.is_empty() {
                    return Err(format!("macro crate does not expand: {}", stderr.chars().take(3000).collect::<String>()));
                }
                for (k, msg) in bad {
                    cases[k]["result"] = json!({"status": "macro-error", "detail": msg});
                    alive.retain(|x| *x != k);
                }
            }
        }
    }
    let Some(macro_file) = macro_file else { return Err("macro crate: too many rounds".into()) };
    for k in alive {
        let a = module_items(&macro_file, &format!("c{k}"));
        let b = module_items(&twin_file, &format!("c{k}"));
        cases[k]["result"] = match (a, b) {
            (Some(a), Some(b)) if a == b => json!({"status": "equal", "items": a.len()}),
            (Some(a), Some(b)) => {
                let i = a.iter().zip(b.iter()).position(|(x, y)| x != y).unwrap_or(a.len().min(b.len()));
                let show = |v: &Vec<String>| v.get(i).map(|s| s.chars().take(300).collect::<String>()).unwrap_or_else(|| "<missing>".into());
                json!({"status": "differs", "detail": format!("item {i}: macro `{}` / builder `{}` ({} vs {} items)", show(&a), show(&b), a.len(), b.len())})
            }
            _ => json!({"status": "harness", "detail": "module missing from an expansion"}),
        };
    }
    Ok(cases)
}
