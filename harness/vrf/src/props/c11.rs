//! C11 -- string conversions of generated types agree with their wire format.

use super::c05::{want_conversions, CONV_OPS};
use super::common::*;
use super::values::*;
use crate::case::*;
use crate::compile::{CompileStatus, ProbeResult};
use crate::engine::*;
use crate::gen::names::*;
use crate::gen::{self, schema as gs, G};
use crate::py::Py;
use serde_json::{json, Map, Value};
use std::collections::BTreeMap;

pub struct C11;

fn string_wire_schema(g: &mut G) -> (String, Value, Vec<String>) {
    match g.below(8) {
        0 | 1 => {
            // simple enum, odd values, no collisions after sanitisation
            let n = 1 + g.below(4);
            let mut vals: Vec<String> = vec![];
            let mut idents = std::collections::BTreeSet::new();
            let mut tries = 0;
            while vals.len() < n && tries < 40 {
                tries += 1;
                let v = match g.below(4) {
                    0 => g.pick(ENUM_VALUES).to_string(),
                    1 => odd_name(g),
                    2 => odd_string(g, 5),
                    _ => {
                        // a value that equals another value's identifier spelling
                        if let Some(prev) = vals.first() {
                            sanitize_like(prev, true)
                        } else {
                            g.pick(ENUM_VALUES).to_string()
                        }
                    }
                };
                if vals.contains(&v) || !idents.insert(sanitize_like(&v, true)) {
                    continue;
                }
                vals.push(v);
            }
            let mut probes = vals.clone();
            for v in &vals {
                probes.push(sanitize_like(v, true));
                probes.push(v.to_uppercase());
                probes.push(v.to_lowercase());
                probes.push(format!("{v} "));
            }
            // the same enumeration written member by member (each may carry a description)
            if g.chance(1, 3) && vals.len() >= 2 {
                let branches: Vec<Value> = vals
                    .iter()
                    .enumerate()
                    .map(|(i, v)| {
                        let mut b = if i % 2 == 0 { json!({"type": "string", "enum": [v]}) } else { json!({"const": v}) };
                        if g.chance(2, 3) {
                            b["description"] = json!(format!("member number {i}"));
                        }
                        b
                    })
                    .collect();
                return ("described-enum".into(), json!({"oneOf": branches}), probes);
            }
            ("simple-enum".into(), json!({"type": "string", "enum": vals}), probes)
        }
        2 => ("plain-string".into(), json!({"type": "string"}), vec!["".into(), "abc".into(), "名".into()]),
        3 => {
            let lo = g.below(3);
            let hi = lo + g.below(4);
            let mut probes = vec![];
            for n in [lo.saturating_sub(1), lo, hi, hi + 1] {
                for c in ['a', 'é', '名', '\u{1F600}'] {
                    probes.push(std::iter::repeat(c).take(n).collect());
                }
            }
            ("length".into(), json!({"type": "string", "minLength": lo, "maxLength": hi}), probes)
        }
        4 => {
            let p = gs::pattern(g);
            let mut probes: Vec<String> = p.good.iter().chain(p.bad.iter()).map(|s| s.to_string()).collect();
            probes.push("xx\nxx".into());
            ("pattern".into(), json!({"type": "string", "pattern": p.re}), probes)
        }
        5 => {
            // date-time: chrono's Display ("... UTC") is not its serde form (known finding KF-016)
            let mut f = *g.pick(gs::STR_FORMATS);
            while f == "date-time" {
                gen::excluded("display-of-date-time-native", 1);
                f = *g.pick(gs::STR_FORMATS);
            }
            let probes: Vec<String> = [
                "123e4567-e89b-12d3-a456-426614174000", "123E4567-E89B-12D3-A456-426614174000", "123e4567e89b12d3a456426614174000", "{123e4567-e89b-12d3-a456-426614174000}", "urn:uuid:123e4567-e89b-12d3-a456-426614174000",
                "2020-02-29", "2020-2-9", "2021-02-29", "20200229",
                "2020-02-29T12:34:56Z", "2020-02-29T12:34:56+01:00", "2020-02-29 12:34:56 UTC", "2020-02-29T12:34:56.123456789Z", "2020-02-29t12:34:56z",
                "192.168.0.1", "010.0.0.1", "::1", "0:0:0:0:0:0:0:1", "fe80::1%eth0", "1.2.3", "", "zz",
            ]
            .iter()
            .map(|s| s.to_string())
            .collect();
            (format!("native:{f}"), json!({"type": "string", "format": f}), probes)
        }
        6 => {
            // untagged union of string-typed alternatives (mutually exclusive)
            // alternatives that end up as the same Rust type (formats without a native type are
            // plain Strings; serde tries the variants in declaration order, so must every conversion)
            if g.chance(1, 3) {
                let probes = vec!["ops@example.com", "http://example.com/a", "123e4567-e89b-12d3-a456-426614174000", "", "zz", "192.168.0.1"];
                let alts = match g.below(3) {
                    0 => json!([{"type": "string", "format": "uri"}, {"type": "string", "format": "email"}, {"type": "string", "format": "uuid"}]),
                    1 => json!([{"type": "string", "format": "uuid"}, {"type": "string", "format": "hostname"}, {"type": "string", "format": "email"}]),
                    _ => json!([{"type": "string", "format": "ipv4"}, {"type": "string", "format": "uri"}, {"type": "string", "format": "uri-reference"}]),
                };
                return ("untagged-strings-same-type".into(), json!({"oneOf": alts}), probes.into_iter().map(|s| s.to_string()).collect());
            }
            let (a, b, probes): (Value, Value, Vec<&str>) = match g.below(6) {
                // overlapping alternatives, the more general one first: serde takes the first that
                // fits, and so must every conversion
                3 => (json!({"type": "string", "pattern": "^[^ ]+$"}), json!({"type": "string", "format": "uuid"}), vec!["123e4567-e89b-12d3-a456-426614174000", "abc", "a b", ""]),
                4 => (json!({"type": "string", "pattern": "^[^ ]+$"}), json!({"type": "string", "format": "ipv4"}), vec!["10.0.0.1", "abc", "a b", "::1"]),
                5 => (json!({"type": "string", "pattern": "x"}), json!({"type": "string", "format": "date"}), vec!["2020-02-29", "axb", "2020-02-29x", ""]),
                0 => (json!({"type": "string", "format": "ipv4"}), json!({"type": "string", "format": "ipv6"}), vec!["10.0.0.1", "::1", "zz", ""]),
                1 => (json!({"type": "string", "format": "uuid"}), json!({"type": "string", "pattern": "^[0-9]{3}$"}), vec!["123e4567-e89b-12d3-a456-426614174000", "123", "1234", "abc"]),
                _ => (json!({"type": "string", "pattern": "^[a-z]+$"}), json!({"type": "string", "pattern": "^[0-9]{3}$"}), vec!["abc", "123", "a1", "", "ABC"]),
            };
            ("untagged-strings".into(), json!({"oneOf": [a, b]}), probes.into_iter().map(|s| s.to_string()).collect())
        }
        _ => {
            let vals = vec![g.pick(ENUM_VALUES).to_string(), g.pick(ENUM_VALUES).to_string()];
            let mut probes = vals.clone();
            probes.push("zz".into());
            probes.push(vals[0].to_uppercase());
            ("deny-list".into(), json!({"type": "string", "not": {"enum": vals}}), probes)
        }
    }
}

pub fn gen_c11_case(g: &mut G) -> Value {
    let n = 1 + g.below(3);
    let mut defs = Map::new();
    let mut roots = vec![];
    let mut probes = vec![];
    let mut features = vec![];
    for i in 0..n {
        let (kind, schema, strings) = string_wire_schema(g);
        let name = DEF_NAMES[i].to_string();
        defs.insert(name.clone(), schema);
        roots.push(RootSel::Ref { r: format!("#/definitions/{name}") });
        features.push(format!("kind:{kind}"));
        let mut strings = strings;
        strings.push("zz-not-a-member".into());
        strings.sort();
        strings.dedup();
        for s in strings {
            for op in ["de", "display"].iter().chain(CONV_OPS.iter()) {
                probes.push(Probe { root: i, op: op.to_string(), arg: json!(s), tag: String::new() });
            }
        }
    }
    let case = Case { history: vec![Step::Root { doc: json!({"definitions": Value::Object(defs)}) }], roots, probes, features, ..Default::default() };
    gen::to_value(&case)
}

impl Property for C11 {
    fn id(&self) -> &'static str {
        "C11"
    }
    fn rule(&self) -> String {
        "documents with 1-3 definitions whose wire form is always a JSON string: simple enums (values from the odd alphabet, identifier-vs-raw spellings), plain / length- / pattern-constrained string newtypes, newtypes over uuid/date/date-time/ip natives, untagged unions of string-typed alternatives, deny lists; probe strings: members, identifier spellings, case variants, non-members, boundary lengths with 1-4 byte scalars, canonical and non-canonical format spellings; which conversions exist is read from the emitted impls; non-trivial = at least one probe accepted by some conversion; distinct by canonical JSON".into()
    }
    fn assumptions(&self) -> Vec<String> {
        vec!["Deserialize of the JSON string is the reference for every conversion; Serialize of the value is the reference for Display".into()]
    }
    fn generate(&self, tier: Tier, seed: u64) -> Vec<Value> {
        gen::draw(seed, "C11", tier.pick(250, 8000), gen_c11_case)
    }
    fn prepare(&self, case_v: &Value) -> Unit {
        let mut ops = vec!["de", "display"];
        ops.extend(CONV_OPS);
        // values are compared structurally too (Debug form): "gives the same value"
        let want = |ix: &crate::analyse::Index, f: &crate::ingest::TypeFact, op: &str| -> Option<&'static str> {
            want_conversions(ix, f, op).map(|h| match h {
                "de" => "de_dbg",
                "parse" => "parse_dbg",
                "try_from_str" => "try_from_str_dbg",
                "try_from_ref_string" => "try_from_ref_string_dbg",
                "try_from_string" => "try_from_string_dbg",
                other => other,
            })
        };
        let mut u = prepare_values(case_v, &want, &ops).unit;
        if let Ok(c) = parse_case(case_v) {
            u.classes.extend(c.features);
        }
        u
    }
    fn in_domain(&self, case_v: &Value) -> bool {
        let Ok(case) = parse_case(case_v) else { return false };
        if case.history.len() != 1 || case.settings != Settings::default() {
            return false;
        }
        let Step::Root { doc } = &case.history[0] else { return false };
        let Some(defs) = doc.get("definitions").and_then(|d| d.as_object()) else { return false };
        // every definition must still be a string-wire schema of one of the kinds
        defs.values().all(|s| {
            let o = match s.as_object() {
                Some(o) => o,
                None => return false,
            };
            if let Some(bs) = o.get("oneOf").and_then(|b| b.as_array()) {
                let member = |b: &Value| -> bool {
                    let Some(m) = b.as_object() else { return false };
                    m.keys().all(|k| matches!(k.as_str(), "type" | "enum" | "const" | "description"))
                        && (m.get("const").map(|c| c.is_string()).unwrap_or(false) || m.get("enum").and_then(|e| e.as_array()).map(|e| e.len() == 1 && e[0].is_string()).unwrap_or(false))
                };
                if o.len() == 1 && bs.len() >= 2 && bs.iter().all(member) {
                    return true;
                }
                return o.len() == 1 && (bs.len() == 2 || bs.len() == 3) && bs.iter().all(|b| b.get("type") == Some(&json!("string")) && (b.get("format").is_some() || b.get("pattern").and_then(|p| p.as_str()).and_then(gs::find_pattern).is_some()));
            }
            if o.get("type") != Some(&json!("string")) {
                return false;
            }
            o.iter().all(|(k, v)| match k.as_str() {
                "type" => true,
                "enum" => v.as_array().map(|a| !a.is_empty() && a.iter().all(|x| x.is_string())).unwrap_or(false),
                "minLength" | "maxLength" => v.is_u64(),
                "pattern" => v.as_str().and_then(gs::find_pattern).is_some(),
                "format" => v.as_str().map(|f| gs::STR_FORMATS.contains(&f)).unwrap_or(false),
                "not" => v.get("enum").and_then(|e| e.as_array()).map(|a| !a.is_empty() && a.iter().all(|x| x.is_string())).unwrap_or(false) && v.as_object().map(|m| m.len() == 1).unwrap_or(false),
                _ => false,
            })
        }) && case.probes.iter().all(|p| p.arg.is_string())
    }
    fn judge(&self, case_v: &Value, unit: &Unit, compile: &CompileStatus, probes: &[ProbeResult], _py: &mut Py) -> Result<Judged, String> {
        let mut j = Judged::default();
        match compile {
            CompileStatus::Ok => {}
            CompileStatus::NotCompiled => return Ok(j),
            CompileStatus::Failed(diags) => {
                if diags.iter().all(|d| d.file != "gen") {
                    let d = &diags[0];
                    return Err(format!("harness driver does not compile: {} {} | {}", d.code, d.message, d.snippet));
                }
                // errors inside the conversion impls are this property's subject
                let gen_rs = unit.module.as_ref().map(|m| m.gen_rs.as_str()).unwrap_or("");
                let mine = diags.iter().find(|d| {
                    d.file == "gen" && {
                        let lines: Vec<&str> = gen_rs.lines().collect();
                        let mut i = d.line.min(lines.len()).saturating_sub(1);
                        let mut it = String::new();
                        loop {
                            let l = lines.get(i).copied().unwrap_or("");
                            if l.starts_with("impl ") {
                                it = l.to_string();
                                break;
                            }
                            if i == 0 || l.starts_with("pub ") {
                                break;
                            }
                            i -= 1;
                        }
                        it.contains("FromStr for") || it.contains("fmt::Display for") || it.contains("TryFrom<")
                    }
                });
                match mine {
                    Some(d) => j.violations.push(Violation::new("conversion-impl-uncompilable", format!("{} {} | {}", d.code, d.message, d.snippet))),
                    None => *j.counters.entry("not_evaluated_uncompilable".into()).or_default() += 1,
                }
                return Ok(j);
            }
        }
        let case = parse_case(case_v)?;
        let mut de: BTreeMap<(usize, String), &ProbeResult> = BTreeMap::new();
        for (p, r) in unit.probes.iter().zip(probes) {
            if let ProbeResult::NotRun = r {
                return Err("probe not run on a compiled module".into());
            }
            if p.op == "de" {
                de.insert((p.root, p.arg.to_string()), r);
            }
        }
        let mut accepted = false;
        for (p, r) in unit.probes.iter().zip(probes) {
            let root_desc = format!("root {} ({})", p.root, case.features.get(p.root).cloned().unwrap_or_default());
            match p.op.as_str() {
                "de" => {}
                "display" => {
                    if let ProbeResult::Ok(v) = r {
                        accepted = true;
                        *j.counters.entry("display_probes".into()).or_default() += 1;
                        let shown = v.get("display").and_then(|d| d.as_str());
                        let ser = v.get("ser").and_then(|d| d.as_str());
                        if ser.is_none() {
                            j.violations.push(Violation::new("wire-not-a-string", format!("{root_desc} value from {} serialises to {:?}", p.arg, v.get("ser"))));
                        } else if shown != ser {
                            j.violations.push(Violation::new("display-differs-from-wire", format!("{root_desc} value from {}: Display prints {:?} but serialisation writes {:?}", p.arg, shown, ser)));
                        }
                    }
                }
                op => {
                    let Some(d) = de.get(&(p.root, p.arg.to_string())) else { continue };
                    *j.counters.entry("conversion_probes".into()).or_default() += 1;
                    if r.is_ok() {
                        accepted = true;
                    }
                    if r.is_ok() != d.is_ok() {
                        j.violations.push(Violation::new(format!("conversion-disagrees:{op}"), format!("{root_desc} string {}: from_str (serde) gives {} but {op} gives {}", p.arg, d.brief(), r.brief())));
                    } else if let (ProbeResult::Ok(a), ProbeResult::Ok(b)) = (r, d) {
                        if a != b {
                            j.violations.push(Violation::new(format!("conversion-value-differs:{op}"), format!("{root_desc} string {}: serde builds {} but {op} builds {}", p.arg, b, a)));
                        }
                    }
                }
            }
        }
        j.nontrivial = Some(accepted);
        let mut seen = std::collections::BTreeSet::new();
        j.violations.retain(|v| seen.insert(v.symptom.clone()));
        Ok(j)
    }
    fn predicate(&self, name: &str, case: &Value, v: &Violation) -> bool {
        super::predicates::check(name, case, v)
    }
}
