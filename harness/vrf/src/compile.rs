//! Stage 4: compile typify's output with the repository's own toolchain
//! (rustc 1.80.1) against the documented dependency set, one module per case,
//! in a few shard crates built in parallel; attribute diagnostics by file;
//! run probes against the resulting binaries.

use serde::{Deserialize, Serialize};
use serde_json::Value;
use std::collections::{BTreeMap, BTreeSet};
use std::io::{BufRead, BufReader, Write};
use std::path::{Path, PathBuf};
use std::process::{Command, Stdio};

pub const VERIF: &str = "/verif";
pub const TOOLCHAIN: &str = "+1.80.1";

#[derive(Serialize, Deserialize, Clone, Debug, Default)]
pub struct ModuleSrc {
    pub type_mod: Option<String>,
    pub gen_rs: String,
    pub drv_rs: String,
}

#[derive(Serialize, Deserialize, Clone, Debug, Default)]
pub struct Diag {
    /// "gen" | "drv" | "mod"
    pub file: String,
    pub line: usize,
    pub code: String,
    pub message: String,
    /// source line the primary span starts on
    pub snippet: String,
}

#[derive(Clone, Debug, Default)]
pub enum CompileStatus {
    #[default]
    NotCompiled,
    Ok,
    Failed(Vec<Diag>),
}

impl CompileStatus {
    pub fn is_ok(&self) -> bool {
        matches!(self, CompileStatus::Ok)
    }
    pub fn diags(&self) -> &[Diag] {
        match self {
            CompileStatus::Failed(d) => d,
            _ => &[],
        }
    }
}

#[derive(Clone, Debug)]
pub enum ProbeResult {
    Ok(Value),
    Err(String),
    Panic(String),
    /// the binary died / hung on this probe
    Crash(String),
    NotRun,
}

impl ProbeResult {
    pub fn is_ok(&self) -> bool {
        matches!(self, ProbeResult::Ok(_))
    }
    pub fn is_err(&self) -> bool {
        matches!(self, ProbeResult::Err(_))
    }
    pub fn ok(&self) -> Option<&Value> {
        match self {
            ProbeResult::Ok(v) => Some(v),
            _ => None,
        }
    }
    pub fn brief(&self) -> String {
        match self {
            ProbeResult::Ok(v) => format!("Ok({})", v),
            ProbeResult::Err(e) => format!("Err({:?})", e),
            ProbeResult::Panic(e) => format!("Panic({:?})", e),
            ProbeResult::Crash(e) => format!("Crash({:?})", e),
            ProbeResult::NotRun => "NotRun".into(),
        }
    }
}

pub struct Batch {
    pub dir: PathBuf,
    pub target: PathBuf,
    pub nshards: usize,
    pub statuses: Vec<CompileStatus>,
    pub rounds: usize,
    pub infra_error: Option<String>,
}

fn work() -> PathBuf {
    Path::new(VERIF).join("work")
}

fn template(name: &str) -> String {
    std::fs::read_to_string(Path::new(VERIF).join("gen-template").join(name))
        .unwrap_or_else(|e| panic!("gen-template/{name}: {e}"))
}

fn write_if_changed(p: &Path, content: &str) {
    if let Ok(old) = std::fs::read_to_string(p) {
        if old == content {
            return;
        }
    }
    if let Some(d) = p.parent() {
        std::fs::create_dir_all(d).unwrap();
    }
    std::fs::write(p, content).unwrap();
}

fn mod_name(i: usize) -> String {
    format!("c{:05}", i)
}

fn module_mod_rs(m: &ModuleSrc) -> String {
    let tm = m.type_mod.clone().unwrap_or_else(|| "g".to_string());
    format!(
        "#![allow(warnings)]\n#[path = \"gen.rs\"]\npub mod {tm};\n#[path = \"drv.rs\"]\npub mod drv;\n"
    )
}

const STUB_DRV: &str = "pub fn __vrf_dispatch(_r: usize, _o: &str, _a: &::serde_json::Value) -> ::std::result::Result<::std::string::String, ::std::string::String> { ::std::result::Result::Err(::std::string::String::from(\"HARNESS: module not compiled\")) }\n";

/// Prefix of every drv.rs (glob imports as promised by DESIGN §3.1(4)).
pub fn drv_prelude(type_mod: &Option<String>) -> String {
    // with a configured module, reported identifiers are module-qualified and must resolve
    // from *outside* that module: no glob import then
    match type_mod {
        Some(_) => "use super::*;\n".to_string(),
        None => "use super::*;\nuse super::g::*;\n".to_string(),
    }
}

/// Ensure the warmed dependency target dir exists (built once by setup).
pub fn ensure_base() -> Result<(), String> {
    let base = work().join("gen-base");
    let marker = work().join("target-gen-base/.warm");
    if marker.exists() {
        return Ok(());
    }
    write_workspace(&base, "base", 1);
    let shard = base.join("s0/src");
    std::fs::create_dir_all(&shard).unwrap();
    write_shard_sources(&base, "base", 0, &[]);
    let out = Command::new("cargo")
        .arg(TOOLCHAIN)
        .args(["build", "--offline"])
        .current_dir(&base)
        .env("CARGO_TARGET_DIR", work().join("target-gen-base"))
        .env("CARGO_NET_OFFLINE", "true")
        .output()
        .map_err(|e| e.to_string())?;
    if !out.status.success() {
        return Err(format!(
            "base build failed: {}",
            String::from_utf8_lossy(&out.stderr)
        ));
    }
    std::fs::write(marker, "ok").unwrap();
    Ok(())
}

fn write_workspace(dir: &Path, tag: &str, nshards: usize) {
    std::fs::create_dir_all(dir).unwrap();
    let members: Vec<String> = (0..nshards).map(|k| format!("\"s{k}\"")).collect();
    let ws = format!(
        "[workspace]\nmembers = [{}]\nresolver = \"2\"\n\n[profile.dev]\ndebug = 0\nopt-level = 0\n",
        members.join(", ")
    );
    write_if_changed(&dir.join("Cargo.toml"), &ws);
    if !dir.join("Cargo.lock").exists() {
        std::fs::copy("/repo/Cargo.lock", dir.join("Cargo.lock")).ok();
    }
    for k in 0..nshards {
        let name = format!("vrf-{}-s{}", tag.to_lowercase(), k);
        write_if_changed(
            &dir.join(format!("s{k}/Cargo.toml")),
            &template("shard_Cargo.toml").replace("@NAME@", &name),
        );
        write_if_changed(&dir.join(format!("s{k}/src/rt.rs")), &template("rt.rs"));
        write_if_changed(&dir.join(format!("s{k}/src/prelude.rs")), &template("prelude.rs"));
    }
}

fn write_shard_sources(dir: &Path, _tag: &str, k: usize, mods: &[usize]) {
    let mut main = template("main_head.rs");
    for i in mods {
        main.push_str(&format!("mod {};\n", mod_name(*i)));
    }
    main.push_str("fn dispatch(case: usize, root: usize, op: &str, arg: &serde_json::Value) -> Result<String, String> {\n    match case {\n");
    for i in mods {
        main.push_str(&format!(
            "        {} => {}::drv::__vrf_dispatch(root, op, arg),\n",
            i,
            mod_name(*i)
        ));
    }
    main.push_str("        _ => Err(\"HARNESS: no such case\".to_string()),\n    }\n}\n");
    write_if_changed(&dir.join(format!("s{k}/src/main.rs")), &main);
}

fn bin_name(tag: &str, k: usize) -> String {
    format!("vrf-{}-s{}", tag.to_lowercase(), k)
}

/// Compile a batch. `modules[i] = None` means case i has nothing to compile.
pub fn compile_batch(tag: &str, modules: &[Option<ModuleSrc>]) -> Batch {
    let dir = work().join(format!("gen-{tag}"));
    let target = work().join(format!("target-gen-{tag}"));
    let idx: Vec<usize> = modules
        .iter()
        .enumerate()
        .filter(|(_, m)| m.is_some())
        .map(|(i, _)| i)
        .collect();
    let mut statuses: Vec<CompileStatus> = modules.iter().map(|_| CompileStatus::NotCompiled).collect();
    let jobs = crate::pool::n_workers();
    let nshards = if idx.is_empty() { 1 } else { ((idx.len() + 5) / 6).clamp(1, jobs) };
    let mut batch = Batch {
        dir: dir.clone(),
        target: target.clone(),
        nshards,
        statuses: vec![],
        rounds: 0,
        infra_error: None,
    };
    if let Err(e) = ensure_base() {
        batch.infra_error = Some(e);
        batch.statuses = statuses;
        return batch;
    }
    if !target.exists() {
        // seed with the warmed dependency builds
        let st = Command::new("cp")
            .arg("-a")
            .arg(work().join("target-gen-base"))
            .arg(&target)
            .status();
        if !matches!(st, Ok(s) if s.success()) {
            batch.infra_error = Some("cannot seed target dir".into());
            batch.statuses = statuses;
            return batch;
        }
    }
    // fresh source tree for the shards (old modules removed)
    for k in 0..64 {
        let p = dir.join(format!("s{k}"));
        if p.exists() {
            let _ = std::fs::remove_dir_all(&p);
        }
    }
    write_workspace(&dir, tag, nshards);
    let mut shard_mods: Vec<Vec<usize>> = vec![vec![]; nshards];
    for (n, i) in idx.iter().enumerate() {
        shard_mods[n % nshards].push(*i);
    }
    let shard_of: BTreeMap<usize, usize> = shard_mods
        .iter()
        .enumerate()
        .flat_map(|(k, v)| v.iter().map(move |i| (*i, k)))
        .collect();
    for (k, mods) in shard_mods.iter().enumerate() {
        for i in mods {
            let m = modules[*i].as_ref().unwrap();
            let md = dir.join(format!("s{k}/src/{}", mod_name(*i)));
            std::fs::create_dir_all(&md).unwrap();
            std::fs::write(md.join("mod.rs"), module_mod_rs(m)).unwrap();
            std::fs::write(md.join("gen.rs"), &m.gen_rs).unwrap();
            std::fs::write(md.join("drv.rs"), &m.drv_rs).unwrap();
        }
        write_shard_sources(&dir, tag, k, mods);
    }
    for i in &idx {
        statuses[*i] = CompileStatus::Ok;
    }
    // build / attribute / stub / rebuild
    let max_rounds = 12;
    loop {
        batch.rounds += 1;
        let out = Command::new("cargo")
            .arg(TOOLCHAIN)
            .args(["build", "--offline", "--message-format=json", "--keep-going", "-q"])
            .current_dir(&dir)
            .env("CARGO_TARGET_DIR", &target)
            .env("CARGO_NET_OFFLINE", "true")
            .env("RUSTFLAGS", "-Awarnings")
            .stdout(Stdio::piped())
            .stderr(Stdio::piped())
            .output();
        let out = match out {
            Ok(o) => o,
            Err(e) => {
                batch.infra_error = Some(format!("cargo spawn: {e}"));
                break;
            }
        };
        if out.status.success() {
            break;
        }
        let mut failed: BTreeMap<usize, Vec<Diag>> = BTreeMap::new();
        let mut unattributed: Vec<String> = vec![];
        for line in String::from_utf8_lossy(&out.stdout).lines() {
            let Ok(v) = serde_json::from_str::<Value>(line) else { continue };
            if v["reason"] != "compiler-message" {
                continue;
            }
            let msg = &v["message"];
            if msg["level"] != "error" {
                continue;
            }
            let text = msg["message"].as_str().unwrap_or("").to_string();
            if text.starts_with("aborting due to") {
                continue;
            }
            let code = msg["code"]["code"].as_str().unwrap_or("").to_string();
            match locate(msg) {
                Some((i, file, line, snippet)) => failed.entry(i).or_default().push(Diag {
                    file,
                    line,
                    code,
                    message: text,
                    snippet,
                }),
                None => unattributed.push(format!(
                    "{}: {}",
                    code,
                    msg["rendered"].as_str().unwrap_or(&text)
                )),
            }
        }
        if failed.is_empty() {
            let stderr = String::from_utf8_lossy(&out.stderr);
            batch.infra_error = Some(format!(
                "build failed without attributable diagnostics: {}\n{}",
                unattributed.join("\n"),
                stderr.chars().take(4000).collect::<String>()
            ));
            break;
        }
        let mut touched: BTreeSet<usize> = BTreeSet::new();
        for (i, diags) in failed {
            let k = shard_of[&i];
            touched.insert(k);
            let md = dir.join(format!("s{k}/src/{}", mod_name(i)));
            std::fs::write(md.join("mod.rs"), "#![allow(warnings)]\n#[path = \"stub.rs\"]\npub mod drv;\n").unwrap();
            std::fs::write(md.join("stub.rs"), STUB_DRV).unwrap();
            statuses[i] = CompileStatus::Failed(diags);
        }
        if batch.rounds >= max_rounds {
            batch.infra_error = Some("too many compile rounds".into());
            break;
        }
    }
    batch.statuses = statuses;
    batch
}

/// Find the module a diagnostic belongs to: (module index, file kind, line, snippet)
fn locate(msg: &Value) -> Option<(usize, String, usize, String)> {
    fn from_span(span: &Value) -> Option<(usize, String, usize, String)> {
        let f = span["file_name"].as_str()?;
        // s3/src/c00012/gen.rs
        let parts: Vec<&str> = f.split('/').collect();
        let pos = parts.iter().position(|p| p.starts_with('c') && p.len() == 6 && p[1..].chars().all(|c| c.is_ascii_digit()));
        if let Some(pos) = pos {
            let i: usize = parts[pos][1..].parse().ok()?;
            let file = parts.get(pos + 1).copied().unwrap_or("");
            let kind = match file {
                "gen.rs" => "gen",
                "drv.rs" => "drv",
                _ => "mod",
            };
            let line = span["line_start"].as_u64().unwrap_or(0) as usize;
            let snippet = span["text"][0]["text"].as_str().unwrap_or("").trim().to_string();
            return Some((i, kind.to_string(), line, snippet));
        }
        // inside a macro expansion: walk to the call site
        if !span["expansion"].is_null() {
            return from_span(&span["expansion"]["span"]);
        }
        None
    }
    let spans = msg["spans"].as_array()?;
    let mut best: Option<(usize, String, usize, String)> = None;
    for s in spans.iter().filter(|s| s["is_primary"] == true).chain(spans.iter()) {
        if let Some(r) = from_span(s) {
            // prefer a gen.rs location over a drv.rs one (a drv line that merely
            // *uses* something broken in gen.rs is not the cause)
            match &best {
                None => best = Some(r),
                Some(b) if b.1 != "gen" && r.1 == "gen" && b.0 == r.0 => best = Some(r),
                _ => {}
            }
        }
    }
    if best.is_none() {
        for c in msg["children"].as_array().into_iter().flatten() {
            if let Some(r) = locate(c) {
                return Some(r);
            }
        }
    }
    best
}

#[derive(Clone, Debug)]
pub struct ProbeReq {
    pub case: usize,
    pub root: usize,
    pub op: String,
    pub arg: Value,
}

impl Batch {
    /// Run probes; result index aligned with `probes`.
    pub fn run_probes(&self, tag: &str, probes: &[ProbeReq], shard_of_case: impl Fn(usize) -> Option<usize>) -> Vec<ProbeResult> {
        let mut results: Vec<ProbeResult> = probes.iter().map(|_| ProbeResult::NotRun).collect();
        let mut by_shard: BTreeMap<usize, Vec<usize>> = BTreeMap::new();
        for (n, p) in probes.iter().enumerate() {
            if let Some(k) = shard_of_case(p.case) {
                by_shard.entry(k).or_default().push(n);
            }
        }
        let shard_results: Vec<(usize, Vec<(usize, ProbeResult)>)> = {
            use rayon::prelude::*;
            by_shard
                .into_par_iter()
                .map(|(k, ns)| {
                    let bin = self.target.join("debug").join(bin_name(tag, k));
                    (k, run_shard(&bin, probes, &ns))
                })
                .collect()
        };
        for (_, rs) in shard_results {
            for (n, r) in rs {
                results[n] = r;
            }
        }
        results
    }

    pub fn shard_map(&self, modules_present: &[bool]) -> BTreeMap<usize, usize> {
        let idx: Vec<usize> = modules_present
            .iter()
            .enumerate()
            .filter(|(_, m)| **m)
            .map(|(i, _)| i)
            .collect();
        idx.iter().enumerate().map(|(n, i)| (*i, n % self.nshards)).collect()
    }
}

fn run_shard(bin: &Path, probes: &[ProbeReq], ns: &[usize]) -> Vec<(usize, ProbeResult)> {
    let mut out: Vec<(usize, ProbeResult)> = vec![];
    let mut pos = 0;
    while pos < ns.len() {
        let child = Command::new(bin)
            .stdin(Stdio::piped())
            .stdout(Stdio::piped())
            .stderr(Stdio::null())
            .spawn();
        let mut child = match child {
            Ok(c) => c,
            Err(e) => {
                for n in &ns[pos..] {
                    out.push((*n, ProbeResult::Crash(format!("spawn {}: {e}", bin.display()))));
                }
                return out;
            }
        };
        let mut stdin = child.stdin.take().unwrap();
        let stdout = child.stdout.take().unwrap();
        let todo: Vec<usize> = ns[pos..].to_vec();
        let lines: Vec<String> = todo
            .iter()
            .map(|n| {
                let p = &probes[*n];
                serde_json::json!({"case": p.case, "root": p.root, "op": p.op, "arg": p.arg}).to_string()
            })
            .collect();
        let writer = std::thread::spawn(move || {
            for l in lines {
                if stdin.write_all(l.as_bytes()).is_err() || stdin.write_all(b"\n").is_err() {
                    break;
                }
            }
            let _ = stdin.flush();
        });
        let (tx, rx) = std::sync::mpsc::channel::<String>();
        let reader = std::thread::spawn(move || {
            for l in BufReader::new(stdout).lines() {
                match l {
                    Ok(l) => {
                        if tx.send(l).is_err() {
                            break;
                        }
                    }
                    Err(_) => break,
                }
            }
        });
        let mut answered = 0;
        let mut hang = false;
        loop {
            if answered == todo.len() {
                break;
            }
            match rx.recv_timeout(std::time::Duration::from_secs(30)) {
                Ok(l) => {
                    let v: Value = serde_json::from_str(&l).unwrap_or(Value::Null);
                    let r = if let Some(o) = v.get("ok") {
                        ProbeResult::Ok(o.clone())
                    } else if let Some(e) = v.get("err") {
                        ProbeResult::Err(e.as_str().unwrap_or("").to_string())
                    } else if let Some(e) = v.get("panic") {
                        ProbeResult::Panic(e.as_str().unwrap_or("").to_string())
                    } else {
                        ProbeResult::Crash(format!("bad reply {l}"))
                    };
                    out.push((todo[answered], r));
                    answered += 1;
                }
                Err(std::sync::mpsc::RecvTimeoutError::Timeout) => {
                    hang = true;
                    break;
                }
                Err(_) => break,
            }
        }
        let _ = child.kill();
        let st = child.wait().map(|s| s.to_string()).unwrap_or_default();
        let _ = writer.join();
        let _ = reader.join();
        pos += answered;
        if answered < todo.len() {
            // the first unanswered probe killed (or hung) the binary
            out.push((
                todo[answered],
                ProbeResult::Crash(if hang { "hang".to_string() } else { format!("died: {st}") }),
            ));
            pos += 1;
        }
    }
    out
}
