//! The shared pipeline: generate -> prepare (workers) -> compile/run ->
//! judge -> shrink -> replay files, evidence, known findings, exit code.

use crate::compile::{self, CompileStatus, ModuleSrc, ProbeReq, ProbeResult};
use crate::ingest::Outcome;
use crate::pool::{self, WorkerReply};
use crate::py::Py;
use serde::{Deserialize, Serialize};
use serde_json::{json, Value};
use std::collections::{BTreeMap, BTreeSet};
use std::time::{Duration, Instant};

#[derive(Clone, Copy, PartialEq, Eq, Debug)]
pub enum Tier {
    Quick,
    Thorough,
}

impl Tier {
    pub fn name(&self) -> &'static str {
        match self {
            Tier::Quick => "quick",
            Tier::Thorough => "thorough",
        }
    }
    pub fn pick(&self, q: usize, t: usize) -> usize {
        match self {
            Tier::Quick => q,
            Tier::Thorough => t,
        }
    }
}

#[derive(Serialize, Deserialize, Clone, Debug, PartialEq)]
pub struct Violation {
    /// failure class; shrinking preserves it and known findings match on it
    pub symptom: String,
    pub detail: String,
}

impl Violation {
    pub fn new(symptom: impl Into<String>, detail: impl Into<String>) -> Violation {
        Violation { symptom: symptom.into(), detail: detail.into() }
    }
}

/// Result of the worker stage for one case.
#[derive(Serialize, Deserialize, Clone, Debug)]
pub struct Unit {
    pub outcome: Outcome,
    #[serde(default)]
    pub message: String,
    /// violations already decided in-process
    #[serde(default)]
    pub violations: Vec<Violation>,
    #[serde(default)]
    pub nontrivial: bool,
    #[serde(default)]
    pub classes: Vec<String>,
    #[serde(default)]
    pub module: Option<ModuleSrc>,
    /// probes to run against the compiled module: (root, op, arg)
    #[serde(default)]
    pub probes: Vec<crate::case::Probe>,
    /// property specific facts carried to `judge`
    #[serde(default)]
    pub info: Value,
    /// counters merged into the evidence file
    #[serde(default)]
    pub counters: BTreeMap<String, u64>,
}

impl Default for Unit {
    fn default() -> Self {
        Unit {
            outcome: Outcome::Ok,
            message: String::new(),
            violations: vec![],
            nontrivial: false,
            classes: vec![],
            module: None,
            probes: vec![],
            info: Value::Null,
            counters: BTreeMap::new(),
        }
    }
}

#[derive(Default)]
pub struct Judged {
    pub violations: Vec<Violation>,
    /// overrides Unit.nontrivial when Some
    pub nontrivial: Option<bool>,
    pub classes: Vec<String>,
    pub counters: BTreeMap<String, u64>,
}

pub struct Evaluated {
    pub case: Value,
    pub unit: Unit,
    pub compile: CompileStatus,
    pub probes: Vec<ProbeResult>,
    pub violations: Vec<Violation>,
    pub nontrivial: bool,
    pub classes: Vec<String>,
    pub counters: BTreeMap<String, u64>,
}

pub trait Property: Sync {
    fn id(&self) -> &'static str;
    /// how cases are generated and what makes one non-trivial / distinct
    fn rule(&self) -> String;
    fn assumptions(&self) -> Vec<String>;
    /// cases to evaluate; all randomness from the proptest runner seeded with `seed`
    fn generate(&self, tier: Tier, seed: u64) -> Vec<Value>;
    /// one case from one generator state: the entry point of the coverage-guided
    /// stage (bytes -> `G::from_bytes` -> case); None = no such stage
    fn fuzz_gen(&self, _g: &mut crate::gen::G) -> Option<Value> {
        None
    }
    /// true when the enumerated space is finite and was enumerated completely
    fn exhaustive(&self, _tier: Tier) -> bool {
        false
    }
    /// worker stage (runs typify; always inside a worker sub-process)
    fn prepare(&self, case: &Value) -> Unit;
    /// orchestrator stage
    fn judge(
        &self,
        _case: &Value,
        _unit: &Unit,
        _compile: &CompileStatus,
        _probes: &[ProbeResult],
        _py: &mut Py,
    ) -> Result<Judged, String> {
        Ok(Judged::default())
    }
    /// is a (shrunk) case still inside the domain the property quantifies
    /// over? Candidates outside are discarded by the shrinker.
    fn in_domain(&self, _case: &Value) -> bool {
        true
    }
    /// false when cases cannot be shrunk structurally (their parts come from outside the harness)
    fn shrinks(&self, _case: &Value) -> bool {
        true
    }
    /// named predicates over shrunk cases for known-finding attribution
    fn predicate(&self, _name: &str, _case: &Value, _v: &Violation) -> bool {
        false
    }
    /// cases per pipeline batch
    fn chunk(&self) -> usize {
        2400
    }
    /// per-case watchdog for the worker stage
    fn timeout(&self) -> Duration {
        Duration::from_secs(60)
    }
    /// key under which distinctness is counted (default: the whole case
    /// without its feature labels)
    fn distinct_key(&self, case: &Value) -> String {
        let mut c = case.clone();
        if let Some(o) = c.as_object_mut() {
            o.remove("features");
        }
        c.to_string()
    }
    fn sample(&self, case: &Value) -> Value {
        case.clone()
    }
}

pub struct Infra(pub String);

/// Run the full pipeline over a batch of cases.
pub fn evaluate(prop: &dyn Property, cases: &[Value], py: &mut Py, stats: &mut Stats) -> Result<Vec<Evaluated>, Infra> {
    let id = prop.id();
    let replies = pool::map(id, cases.to_vec(), prop.timeout());
    let mut units: Vec<Unit> = Vec::with_capacity(cases.len());
    for r in replies {
        let u = match r {
            WorkerReply::Ok(v) => {
                if let Some(p) = v.get("__worker_panic") {
                    return Err(Infra(format!("harness panic in worker: {p}")));
                }
                if let Some(p) = v.get("__bad_request") {
                    return Err(Infra(format!("worker could not parse request: {p}")));
                }
                match serde_json::from_value::<Unit>(v) {
                    Ok(u) => u,
                    Err(e) => return Err(Infra(format!("bad unit from worker: {e}"))),
                }
            }
            WorkerReply::Crash(m) => Unit { outcome: Outcome::Crash, message: m, ..Default::default() },
            WorkerReply::Hang => Unit { outcome: Outcome::Hang, message: "watchdog".into(), ..Default::default() },
        };
        *stats.outcomes.entry(format!("{:?}", u.outcome).to_lowercase()).or_default() += 1;
        if u.outcome == Outcome::Panic {
            let site = u.message.rsplit(" @ ").next().unwrap_or("").to_string();
            *stats.panic_sites.entry(site).or_default() += 1;
        }
        units.push(u);
    }
    // compile + run
    let mods: Vec<Option<ModuleSrc>> = units.iter().map(|u| u.module.clone()).collect();
    let any_mod = mods.iter().any(|m| m.is_some());
    let mut statuses: Vec<CompileStatus> = units.iter().map(|_| CompileStatus::NotCompiled).collect();
    let mut probe_results: Vec<Vec<ProbeResult>> = units.iter().map(|u| u.probes.iter().map(|_| ProbeResult::NotRun).collect()).collect();
    if any_mod {
        let t0 = Instant::now();
        let batch = compile::compile_batch(id, &mods);
        stats.compile_s += t0.elapsed().as_secs_f64();
        stats.compile_rounds += batch.rounds;
        stats.modules += mods.iter().filter(|m| m.is_some()).count();
        if let Some(e) = &batch.infra_error {
            return Err(Infra(format!("compile pipeline: {e}")));
        }
        statuses = batch.statuses.clone();
        let present: Vec<bool> = mods.iter().map(|m| m.is_some()).collect();
        let shard_map = batch.shard_map(&present);
        let mut reqs = vec![];
        let mut back = vec![];
        for (i, u) in units.iter().enumerate() {
            if !statuses[i].is_ok() {
                continue;
            }
            for (j, p) in u.probes.iter().enumerate() {
                reqs.push(ProbeReq { case: i, root: p.root, op: p.op.clone(), arg: p.arg.clone() });
                back.push((i, j));
            }
        }
        let t1 = Instant::now();
        let res = batch.run_probes(id, &reqs, |c| shard_map.get(&c).copied());
        stats.probe_s += t1.elapsed().as_secs_f64();
        stats.probes += reqs.len();
        for ((i, j), r) in back.into_iter().zip(res) {
            if let ProbeResult::Err(e) = &r {
                if e.starts_with("HARNESS:") {
                    return Err(Infra(format!("probe protocol: {e}")));
                }
            }
            probe_results[i][j] = r;
        }
    }
    let mut out = Vec::with_capacity(cases.len());
    for (i, unit) in units.into_iter().enumerate() {
        // shrinker candidates that are not even well-formed cases are not judged
        let j = if unit.outcome == Outcome::Invalid {
            Judged::default()
        } else {
            prop.judge(&cases[i], &unit, &statuses[i], &probe_results[i], py).map_err(Infra)?
        };
        let mut violations = unit.violations.clone();
        violations.extend(j.violations);
        let mut classes = unit.classes.clone();
        classes.extend(j.classes);
        let mut counters = unit.counters.clone();
        for (k, v) in j.counters {
            *counters.entry(k).or_default() += v;
        }
        out.push(Evaluated {
            case: cases[i].clone(),
            nontrivial: j.nontrivial.unwrap_or(unit.nontrivial),
            unit,
            compile: statuses[i].clone(),
            probes: std::mem::take(&mut probe_results[i]),
            violations,
            classes,
            counters,
        });
    }
    Ok(out)
}

#[derive(Default)]
pub struct Stats {
    pub outcomes: BTreeMap<String, u64>,
    pub panic_sites: BTreeMap<String, u64>,
    pub compile_s: f64,
    pub probe_s: f64,
    pub compile_rounds: usize,
    pub modules: usize,
    pub probes: usize,
}

#[derive(Serialize, Deserialize, Clone, Debug)]
pub struct KnownFinding {
    pub id: String,
    pub properties: Vec<String>,
    pub title: String,
    pub replay: String,
    pub symptom: String,
    pub predicate: String,
    /// "open" or "fixed: property=<id> <commit> <what failed>"
    pub status: String,
}

pub fn load_findings() -> Vec<KnownFinding> {
    let p = "/verif/known_findings.json";
    match std::fs::read_to_string(p) {
        Ok(s) => serde_json::from_str(&s).unwrap_or_else(|e| {
            eprintln!("known_findings.json unreadable: {e}");
            std::process::exit(2)
        }),
        Err(_) => vec![],
    }
}

pub fn symptom_matches(pattern: &str, symptom: &str) -> bool {
    if let Some(p) = pattern.strip_suffix('*') {
        symptom.starts_with(p)
    } else {
        pattern == symptom
    }
}

pub fn seed() -> u64 {
    std::env::var("VERIF_SEED").ok().and_then(|s| s.parse().ok()).unwrap_or(1)
}

fn truncate_sample(v: Value) -> Value {
    let s = v.to_string();
    if s.len() > 6000 {
        json!({"truncated_case_json": s.chars().take(6000).collect::<String>()})
    } else {
        v
    }
}

pub fn write_replay(prop: &str, n: usize, case: &Value, v: &Violation, shrunk_rounds: usize, tier: Tier, seed: u64) -> String {
    let dir = "/verif/replays";
    std::fs::create_dir_all(dir).ok();
    let path = format!("{dir}/{prop}-{}-s{seed}-{n}.json", tier.name());
    let doc = json!({
        "property": prop,
        "signature": {"symptom": v.symptom},
        "observed": v.detail,
        "case": case,
        "seed": seed,
        "tier": tier.name(),
        "shrink_rounds": shrunk_rounds,
    });
    std::fs::write(&path, serde_json::to_string_pretty(&doc).unwrap()).ok();
    path
}

pub fn read_replay(path: &str) -> Result<(Value, Option<String>), String> {
    let s = std::fs::read_to_string(path).map_err(|e| format!("{path}: {e}"))?;
    let v: Value = serde_json::from_str(&s).map_err(|e| format!("{path}: {e}"))?;
    let symptom = v["signature"]["symptom"].as_str().map(|s| s.to_string());
    let case = if v.get("case").is_some() { v["case"].clone() } else { v };
    Ok((case, symptom))
}

/// Entry point for `vrf check <ID> <tier>`. Returns the process exit code.
pub fn run_check(prop: &dyn Property, tier: Tier) -> i32 {
    let t0 = Instant::now();
    let seed = seed();
    let id = prop.id();
    let mut stats = Stats::default();
    let mut py = Py::new();
    let findings: Vec<KnownFinding> = load_findings()
        .into_iter()
        .filter(|f| f.properties.iter().any(|p| p == id))
        .collect();

    // 1. regression tier: replay committed findings (open and fixed)
    let mut known_lines: Vec<String> = vec![];
    let mut violations_out: Vec<(String, Violation)> = vec![];
    let mut replay_cases = vec![];
    for f in &findings {
        match read_replay(&format!("/verif/{}", f.replay)) {
            Ok((case, _)) => replay_cases.push((f.clone(), case)),
            Err(e) => {
                eprintln!("INFRA: {e}");
                return 2;
            }
        }
    }
    if !replay_cases.is_empty() {
        let cases: Vec<Value> = replay_cases.iter().map(|(_, c)| c.clone()).collect();
        let mut st = Stats::default();
        match evaluate(prop, &cases, &mut py, &mut st) {
            Ok(evs) => {
                for ((f, case), ev) in replay_cases.iter().zip(evs) {
                    let hit = ev.violations.iter().find(|v| symptom_matches(&f.symptom, &v.symptom));
                    if f.status.starts_with("open") {
                        if hit.is_some() {
                            known_lines.push(format!("KNOWN-FINDING: property={id} {} [{}]", f.title, f.id));
                        }
                        // other symptoms on a finding's replay file are not suppressed
                        for v in ev.violations.iter().filter(|v| !symptom_matches(&f.symptom, &v.symptom)) {
                            if !findings.iter().any(|g| g.status.starts_with("open") && symptom_matches(&g.symptom, &v.symptom) && prop.predicate(&g.predicate, case, v)) {
                                violations_out.push((format!("/verif/{}", f.replay), v.clone()));
                            }
                        }
                    } else if let Some(v) = hit {
                        // a fixed finding came back
                        violations_out.push((format!("/verif/{}", f.replay), v.clone()));
                    }
                }
            }
            Err(Infra(e)) => {
                eprintln!("INFRA: {e}");
                return 2;
            }
        }
    }

    // replay files of earlier runs of this (property, tier, seed) are stale
    if let Ok(rd) = std::fs::read_dir("/verif/replays") {
        let prefix = format!("{id}-{}-s{seed}-", tier.name());
        for e in rd.flatten() {
            if e.file_name().to_string_lossy().starts_with(&prefix) {
                let _ = std::fs::remove_file(e.path());
            }
        }
    }
    // 2. generated search
    let mut cases = prop.generate(tier, seed);
    // cases handed over by the coverage-guided stage (recorded violations and
    // the decoded corpus): judged by the full pipeline like generated ones
    let mut fuzz_info = Value::Null;
    if let Ok(path) = std::env::var("VRF_EXTRA_CASES") {
        match std::fs::read_to_string(&path) {
            Ok(text) => {
                let before = cases.len();
                for l in text.lines().filter(|l| !l.trim().is_empty()) {
                    match serde_json::from_str::<Value>(l) {
                        Ok(v) => cases.push(v),
                        Err(e) => {
                            eprintln!("INFRA: {path}: {e}");
                            return 2;
                        }
                    }
                }
                fuzz_info = json!({"cases_from_coverage_guided_stage": cases.len() - before});
            }
            Err(e) => {
                eprintln!("INFRA: {path}: {e}");
                return 2;
            }
        }
        if let Ok(p) = std::env::var("VRF_FUZZ_SUMMARY") {
            if let Ok(s) = std::fs::read_to_string(&p) {
                if let Ok(v) = serde_json::from_str::<Value>(&s) {
                    fuzz_info["campaign"] = v;
                }
            }
        }
    }
    if let Ok(path) = std::env::var("VRF_DUMP_CASES") {
        // debugging aid: the generated cases, one per line
        let _ = std::fs::write(&path, cases.iter().map(|c| c.to_string()).collect::<Vec<_>>().join("\n"));
    }
    // soundness of the domain predicate used by the shrinker: every generated case is inside it
    let outside = cases.iter().filter(|c| !prop.in_domain(c)).count();
    if outside > 0 {
        let first = cases.iter().find(|c| !prop.in_domain(c)).unwrap();
        let _ = std::fs::write(format!("/verif/work/outside-{id}.json"), serde_json::to_string_pretty(first).unwrap_or_default());
        eprintln!("INFRA: {outside} generated case(s) fall outside in_domain (harness inconsistency), e.g. {}", first.to_string().chars().take(600).collect::<String>());
        return 2;
    }
    let chunk = prop.chunk();
    let mut evaluations = 0usize;
    let mut distinct: BTreeSet<u64> = BTreeSet::new();
    let mut samples: Vec<Value> = vec![];
    let mut classes: BTreeMap<String, u64> = BTreeMap::new();
    let mut counters: BTreeMap<String, u64> = BTreeMap::new();
    let mut failing: BTreeMap<String, Vec<(Value, Violation)>> = BTreeMap::new();
    for part in cases.chunks(chunk) {
        let evs = match evaluate(prop, part, &mut py, &mut stats) {
            Ok(e) => e,
            Err(Infra(e)) => {
                eprintln!("INFRA: {e}");
                return 2;
            }
        };
        for ev in evs {
            evaluations += 1;
            for c in &ev.classes {
                *classes.entry(c.clone()).or_default() += 1;
            }
            for (k, v) in &ev.counters {
                *counters.entry(k.clone()).or_default() += v;
            }
            if ev.nontrivial {
                use std::hash::{Hash, Hasher};
                let mut h = std::collections::hash_map::DefaultHasher::new();
                prop.distinct_key(&ev.case).hash(&mut h);
                if distinct.insert(h.finish()) && samples.len() < 6 {
                    samples.push(truncate_sample(prop.sample(&ev.case)));
                }
            }
            for v in &ev.violations {
                failing.entry(v.symptom.clone()).or_default().push((ev.case.clone(), v.clone()));
            }
        }
    }

    // 3. shrink one representative per symptom (smallest case first), attribute
    let max_symptoms = tier.pick(6, 12);
    let mut excluded_known: BTreeMap<String, u64> = BTreeMap::new();
    let mut n_replay = 0;
    let mut symptoms: Vec<(String, Vec<(Value, Violation)>)> = failing.into_iter().collect();
    symptoms.sort_by_key(|(s, _)| s.clone());
    // cases already reported under another (unknown) symptom: a second
    // symptom seen only on those cases is the same failure, not a new one
    let mut covered: BTreeSet<String> = BTreeSet::new();
    let mut cooccurring: BTreeMap<String, u64> = BTreeMap::new();
    for (symptom, mut list) in symptoms {
        let before = list.len();
        list.retain(|(c, _)| !covered.contains(&c.to_string()));
        if list.is_empty() {
            *cooccurring.entry(symptom.clone()).or_default() += before as u64;
            continue;
        }
        let all_cases: Vec<String> = list.iter().map(|(c, _)| c.to_string()).collect();
        list.sort_by_key(|(c, _)| crate::shrink::case_size(c));
        // cheap pre-attribution on unshrunk cases
        let mut unknown: Vec<(Value, Violation)> = vec![];
        for (c, v) in list {
            if let Some(f) = findings.iter().find(|f| f.status.starts_with("open") && symptom_matches(&f.symptom, &v.symptom) && prop.predicate(&f.predicate, &c, &v)) {
                *excluded_known.entry(f.id.clone()).or_default() += 1;
            } else {
                unknown.push((c, v));
            }
        }
        if unknown.is_empty() {
            continue;
        }
        if n_replay >= max_symptoms {
            // still a violation; report unshrunk
            let (c, v) = &unknown[0];
            let p = write_replay(id, n_replay, c, v, 0, tier, seed);
            violations_out.push((p, v.clone()));
            n_replay += 1;
            continue;
        }
        let (c0, v0) = unknown[0].clone();
        let mut infra: Option<String> = None;
        let (shrunk, rounds) = crate::shrink::shrink(&c0, tier.pick(10, 30), tier.pick(300, 600), |cands| {
            let mut st = Stats::default();
            match evaluate(prop, cands, &mut py, &mut st) {
                Ok(evs) => evs
                    .iter()
                    .map(|e| {
                        prop.shrinks(&c0)
                            && std::env::var("VRF_NO_SHRINK").is_err()
                            && prop.in_domain(&e.case)
                            && e.violations.iter().any(|v| {
                                v.symptom == symptom
                                    // never slide from an unlisted failure into the region of a listed finding
                                    && !findings.iter().any(|f| f.status.starts_with("open") && symptom_matches(&f.symptom, &v.symptom) && prop.predicate(&f.predicate, &e.case, v))
                            })
                    })
                    .collect(),
                Err(Infra(e)) => {
                    infra = Some(e);
                    cands.iter().map(|_| false).collect()
                }
            }
        });
        if let Some(e) = infra {
            eprintln!("INFRA (while shrinking, result kept unshrunk): {e}");
        }
        // final verdict on the shrunk case
        let mut st = Stats::default();
        let final_v = match evaluate(prop, &[shrunk.clone()], &mut py, &mut st) {
            Ok(evs) => evs[0].violations.iter().find(|v| v.symptom == symptom).cloned(),
            Err(_) => None,
        };
        let (case_f, v_f) = match final_v {
            Some(v) => (shrunk, v),
            None => (c0, v0),
        };
        if let Some(f) = findings.iter().find(|f| f.status.starts_with("open") && symptom_matches(&f.symptom, &v_f.symptom) && prop.predicate(&f.predicate, &case_f, &v_f)) {
            *excluded_known.entry(f.id.clone()).or_default() += unknown.len() as u64;
            continue;
        }
        let p = write_replay(id, n_replay, &case_f, &v_f, rounds, tier, seed);
        n_replay += 1;
        violations_out.push((p, v_f));
        covered.extend(all_cases);
    }

    // 4. evidence
    let wall = t0.elapsed().as_secs_f64();
    if samples.is_empty() {
        for c in cases.iter().take(3) {
            samples.push(truncate_sample(prop.sample(c)));
        }
    }
    let ev = json!({
        "property_id": id,
        "tier": tier.name(),
        "seed": seed,
        "level": "exploration",
        "coverage": {
            "evaluations": evaluations,
            "distinct_nontrivial": distinct.len(),
            "rule": prop.rule(),
            "samples": samples,
            "exhaustive": prop.exhaustive(tier),
            "classes": classes,
            "counters": counters,
            "ingest_outcomes": stats.outcomes,
            "ingest_panic_sites": stats.panic_sites,
            "compile": {"modules": stats.modules, "rounds": stats.compile_rounds, "compile_s": stats.compile_s, "probes_run": stats.probes, "probe_s": stats.probe_s},
            "python_oracle": {"queries": py.queries, "instances": py.instances},
            "excluded_by_known_finding": excluded_known,
            "excluded_by_construction": crate::gen::EXCLUSIONS.lock().unwrap().clone(),
            "symptoms_cooccurring_with_reported": cooccurring,
            "known_findings_replayed": known_lines.len(),
            "coverage_guided_stage": fuzz_info,
        },
        "assumptions": prop.assumptions(),
        "wall_s": wall,
        "violations": violations_out.len(),
    });
    std::fs::create_dir_all("/verif/evidence").ok();
    if let Err(e) = std::fs::write(format!("/verif/evidence/{id}.json"), serde_json::to_string_pretty(&ev).unwrap()) {
        eprintln!("INFRA: cannot write evidence: {e}");
        return 2;
    }
    for l in &known_lines {
        println!("{l}");
    }
    println!(
        "{id} {}: {} cases, {} distinct non-trivial, {} violation(s), {:.1}s",
        tier.name(),
        evaluations,
        distinct.len(),
        violations_out.len(),
        wall
    );
    if violations_out.is_empty() {
        0
    } else {
        for (p, v) in &violations_out {
            println!("VIOLATION property={id} replay={p}");
            println!("  symptom: {}", v.symptom);
            println!("  detail : {}", v.detail.chars().take(1500).collect::<String>());
        }
        1
    }
}

/// `vrf replay <ID> <file>`: bypass generation, evaluate one case.
pub fn run_replay(prop: &dyn Property, path: &str) -> i32 {
    let (case, symptom) = match read_replay(path) {
        Ok(x) => x,
        Err(e) => {
            eprintln!("INFRA: {e}");
            return 2;
        }
    };
    let mut py = Py::new();
    let mut st = Stats::default();
    match evaluate(prop, &[case], &mut py, &mut st) {
        Ok(evs) => {
            let ev = &evs[0];
            println!("outcome: {:?} {}", ev.unit.outcome, ev.unit.message);
            if let Some(m) = &ev.unit.module {
                let _ = std::fs::write("/verif/work/last_replay_gen.rs", &m.gen_rs);
                let _ = std::fs::write("/verif/work/last_replay_drv.rs", &m.drv_rs);
            }
            if let CompileStatus::Failed(d) = &ev.compile {
                for x in d {
                    println!("rustc {} {}:{} {} | {}", x.code, x.file, x.line, x.message, x.snippet);
                }
            }
            for (p, r) in ev.unit.probes.iter().zip(ev.probes.iter()) {
                println!("probe root={} {} {} -> {}", p.root, p.op, p.arg, r.brief());
            }
            let vs: Vec<&Violation> = ev
                .violations
                .iter()
                .filter(|v| symptom.as_ref().map(|s| &v.symptom == s).unwrap_or(true))
                .collect();
            if vs.is_empty() && !ev.violations.is_empty() {
                println!("(other symptoms present: {:?})", ev.violations.iter().map(|v| &v.symptom).collect::<Vec<_>>());
            }
            if ev.violations.is_empty() {
                println!("replay: property holds on this case");
                0
            } else {
                for v in &ev.violations {
                    println!("VIOLATION property={} replay={path}", prop.id());
                    println!("  symptom: {}", v.symptom);
                    println!("  detail : {}", v.detail);
                }
                1
            }
        }
        Err(Infra(e)) => {
            eprintln!("INFRA: {e}");
            2
        }
    }
}
