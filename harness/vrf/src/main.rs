//! vrf: property-based verification harness for typify (see /verif/DESIGN.md).
use vrf::{compile, engine, fuzzing, ingest, pool, props};
use engine::{Property, Tier};

fn usage() -> ! {
    eprintln!("usage: vrf check <ID> <quick|thorough> | vrf replay <ID> <file> | vrf worker <ID> | vrf fuzz-decode <ID> <dir> <out.jsonl> [max] | vrf warm");
    std::process::exit(2)
}

fn main() {
    let args: Vec<String> = std::env::args().collect();
    if args.len() < 2 {
        usage();
    }
    match args[1].as_str() {
        "warm" => {
            if let Err(e) = compile::ensure_base() {
                eprintln!("INFRA: {e}");
                std::process::exit(2);
            }
        }
        "render" => props::c12::render_main(),
        "worker" => {
            let prop = props::lookup(args.get(2).map(|s| s.as_str()).unwrap_or("")).unwrap_or_else(|| usage());
            pool::worker_main(move |req| {
                let unit = prop.prepare(&req);
                serde_json::to_value(&unit).unwrap()
            });
        }
        "check" => {
            let prop = props::lookup(args.get(2).map(|s| s.as_str()).unwrap_or("")).unwrap_or_else(|| usage());
            let tier = match args.get(3).map(|s| s.as_str()) {
                Some("quick") => Tier::Quick,
                Some("thorough") => Tier::Thorough,
                _ => usage(),
            };
            ingest::install_panic_hook_verbose();
            let code = engine::run_check(prop.as_ref(), tier);
            std::process::exit(code);
        }
        "fuzz-decode" => {
            let prop = props::lookup(args.get(2).map(|s| s.as_str()).unwrap_or("")).unwrap_or_else(|| usage());
            let (Some(dir), Some(out)) = (args.get(3), args.get(4)) else { usage() };
            let max = args.get(5).and_then(|s| s.parse().ok()).unwrap_or(usize::MAX);
            ingest::install_panic_hook();
            match fuzzing::decode_dir(prop.as_ref(), dir, out, max) {
                Ok(n) => println!("decoded {n} cases"),
                Err(e) => {
                    eprintln!("INFRA: {e}");
                    std::process::exit(2);
                }
            }
        }
        "in-domain" => {
            // debugging aid: is the case in FILE inside the property's domain?
            let prop = props::lookup(args.get(2).map(|s| s.as_str()).unwrap_or("")).unwrap_or_else(|| usage());
            let Some(path) = args.get(3) else { usage() };
            match engine::read_replay(path) {
                Ok((case, _)) => println!("{}", prop.in_domain(&case)),
                Err(e) => {
                    eprintln!("INFRA: {e}");
                    std::process::exit(2);
                }
            }
        }
        "replay" => {
            let prop = props::lookup(args.get(2).map(|s| s.as_str()).unwrap_or("")).unwrap_or_else(|| usage());
            let Some(path) = args.get(3) else { usage() };
            let code = engine::run_replay(prop.as_ref(), path);
            std::process::exit(code);
        }
        _ => usage(),
    }
}
