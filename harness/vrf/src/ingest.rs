//! Stage 2: run typify on a case (always under catch_unwind) and collect what
//! the *public* API says about the result.

use crate::case::*;
use schemars::schema::{RootSchema, Schema, SchemaObject};
use serde::{Deserialize, Serialize};
use serde_json::Value;
use std::cell::RefCell;
use std::collections::BTreeMap;
use std::panic::{catch_unwind, AssertUnwindSafe};
use typify_impl::{CrateVers, Type, TypeDetails, TypeEnumVariant, TypeId, TypeSpace, TypeSpaceImpl, TypeSpacePatch, TypeSpaceSettings, UnknownPolicy};

thread_local! {
    static LAST_PANIC: RefCell<Option<String>> = RefCell::new(None);
}

/// Install a silent panic hook that records message and location.
pub fn install_panic_hook() {
    std::panic::set_hook(Box::new(|info| {
        let msg = if let Some(s) = info.payload().downcast_ref::<&str>() {
            s.to_string()
        } else if let Some(s) = info.payload().downcast_ref::<String>() {
            s.clone()
        } else {
            "<non-string panic>".to_string()
        };
        let loc = info
            .location()
            .map(|l| {
                let f = l.file();
                let f = f.rsplit("/src/").next().unwrap_or(f);
                format!("{}:{}", f, l.line())
            })
            .unwrap_or_default();
        LAST_PANIC.with(|p| *p.borrow_mut() = Some(format!("{} @ {}", msg, loc)));
    }));
}

pub fn take_panic() -> String {
    LAST_PANIC
        .with(|p| p.borrow_mut().take())
        .unwrap_or_else(|| "<unknown panic>".into())
}

/// Run `f` catching panics; Err(message @ file:line).
pub fn guarded<T>(f: impl FnOnce() -> T) -> Result<T, String> {
    match catch_unwind(AssertUnwindSafe(f)) {
        Ok(v) => Ok(v),
        Err(_) => Err(take_panic()),
    }
}

#[derive(Serialize, Deserialize, Clone, Debug, PartialEq)]
#[serde(rename_all = "lowercase")]
pub enum Outcome {
    Ok,
    /// an `add_*` call returned Err (or the schema text is not a schemars
    /// schema at all: `Invalid`)
    Err,
    Invalid,
    /// an `add_*` call panicked
    Panic,
    /// set by the orchestrator only
    Crash,
    Hang,
}

pub fn build_settings(s: &Settings) -> Result<TypeSpaceSettings, String> {
    let mut out = TypeSpaceSettings::default();
    if s.struct_builder {
        out.with_struct_builder(true);
    }
    if let Some(m) = &s.map_type {
        out.with_map_type(m.clone());
    }
    for d in &s.derives {
        out.with_derive(d.clone());
    }
    if let Some(m) = &s.type_mod {
        out.with_type_mod(m);
    }
    for (name, p) in &s.patch {
        let mut tp = TypeSpacePatch::default();
        if let Some(r) = &p.rename {
            tp.with_rename(r);
        }
        for d in &p.derives {
            tp.with_derive(d);
        }
        out.with_patch(name, &tp);
    }
    let impls = |v: &Vec<String>| -> Result<Vec<TypeSpaceImpl>, String> {
        v.iter().map(|s| s.parse::<TypeSpaceImpl>()).collect()
    };
    for (name, r) in &s.replace {
        out.with_replacement(name, &r.ty, impls(&r.impls)?.into_iter());
    }
    for c in &s.convert {
        let so: SchemaObject =
            serde_json::from_value(c.schema.clone()).map_err(|e| format!("convert schema: {e}"))?;
        out.with_conversion(so, &c.ty, impls(&c.impls)?.into_iter());
    }
    for (name, c) in &s.crates {
        let v = CrateVers::parse(&c.version).ok_or_else(|| format!("bad crate version {}", c.version))?;
        out.with_crate(name, v, c.rename.as_ref());
    }
    match s.unknown_crates.as_deref() {
        None | Some("Generate") => {}
        Some("Allow") => {
            out.with_unknown_crates(UnknownPolicy::Allow);
        }
        Some("Deny") => {
            out.with_unknown_crates(UnknownPolicy::Deny);
        }
        Some(o) => return Err(format!("bad unknown policy {o}")),
    }
    Ok(out)
}

pub struct Ingested {
    pub space: TypeSpace,
    pub outcome: Outcome,
    pub message: String,
    /// index of the step that failed (if any)
    pub failed_step: Option<usize>,
    /// TypeId returned by each step that ran successfully
    pub step_ids: Vec<Option<TypeId>>,
}

pub fn tid(id: &TypeId) -> String {
    format!("{:?}", id)
}

/// Apply one step. Ok(Some(id)) / Ok(None) / Err((Outcome,msg)).
pub fn apply_step(space: &mut TypeSpace, step: &Step) -> Result<Option<TypeId>, (Outcome, String)> {
    match step {
        Step::Root { doc } => {
            let root: RootSchema =
                serde_json::from_value(doc.clone()).map_err(|e| (Outcome::Invalid, e.to_string()))?;
            match guarded(|| space.add_root_schema(root)) {
                Ok(Ok(id)) => Ok(id),
                Ok(Err(e)) => Err((Outcome::Err, e.to_string())),
                Err(p) => Err((Outcome::Panic, p)),
            }
        }
        Step::Refs { defs } => {
            let defs: BTreeMap<String, Schema> =
                serde_json::from_value(defs.clone()).map_err(|e| (Outcome::Invalid, e.to_string()))?;
            match guarded(|| space.add_ref_types(defs)) {
                Ok(Ok(())) => Ok(None),
                Ok(Err(e)) => Err((Outcome::Err, e.to_string())),
                Err(p) => Err((Outcome::Panic, p)),
            }
        }
        Step::Type { schema, hint } => {
            let schema: Schema =
                serde_json::from_value(schema.clone()).map_err(|e| (Outcome::Invalid, e.to_string()))?;
            match guarded(|| space.add_type_with_name(&schema, hint.clone())) {
                Ok(Ok(id)) => Ok(Some(id)),
                Ok(Err(e)) => Err((Outcome::Err, e.to_string())),
                Err(p) => Err((Outcome::Panic, p)),
            }
        }
    }
}

pub fn ingest(case: &Case) -> Ingested {
    let settings = match guarded(|| build_settings(&case.settings)).unwrap_or_else(|p| Err(format!("settings rejected: {p}"))) {
        Ok(s) => s,
        Err(e) => {
            return Ingested {
                space: TypeSpace::default(),
                outcome: Outcome::Invalid,
                message: e,
                failed_step: None,
                step_ids: vec![],
            }
        }
    };
    let mut space = match guarded(|| TypeSpace::new(&settings)) {
        Ok(s) => s,
        Err(p) => {
            return Ingested {
                space: TypeSpace::default(),
                outcome: Outcome::Invalid,
                message: p,
                failed_step: None,
                step_ids: vec![],
            }
        }
    };
    let mut step_ids = vec![];
    for (i, step) in case.history.iter().enumerate() {
        match apply_step(&mut space, step) {
            Ok(id) => step_ids.push(id),
            Err((o, m)) => {
                return Ingested {
                    space,
                    outcome: o,
                    message: m,
                    failed_step: Some(i),
                    step_ids,
                }
            }
        }
    }
    Ingested {
        space,
        outcome: Outcome::Ok,
        message: String::new(),
        failed_step: None,
        step_ids,
    }
}

/// Locate the root types of a case through the public API.
/// Returns for each root Some(TypeId) or None when it cannot be resolved.
pub fn resolve_roots(ing: &mut Ingested, case: &Case) -> Vec<Option<TypeId>> {
    case.roots
        .iter()
        .map(|r| match r {
            RootSel::Ref { r } => {
                let schema: Schema = serde_json::from_value(serde_json::json!({ "$ref": r })).ok()?;
                match guarded(|| ing.space.add_type(&schema)) {
                    Ok(Ok(id)) => Some(id),
                    _ => None,
                }
            }
            RootSel::Step { step } => ing.step_ids.get(*step).cloned().flatten(),
        })
        .collect()
}

// ---------------------------------------------------------------------------
// Facts: what the public introspection API says.

#[derive(Serialize, Deserialize, Clone, Debug, Default)]
pub struct PropFact {
    pub name: String,
    pub required: bool,
    pub type_id: String,
    pub type_ident: String,
}

#[derive(Serialize, Deserialize, Clone, Debug, Default)]
pub struct VariantFact {
    pub name: String,
    /// "simple" | "tuple" | "struct"
    pub shape: String,
    /// tuple: positional type idents; struct: (name, ident)
    pub tuple: Vec<(String, String)>,
    pub fields: Vec<(String, String, String)>,
}

#[derive(Serialize, Deserialize, Clone, Debug, Default)]
pub struct TypeFact {
    pub name: String,
    pub ident: String,
    /// struct enum newtype option vec map set box tuple array builtin unit string
    pub kind: String,
    pub props: Vec<PropFact>,
    pub variants: Vec<VariantFact>,
    /// newtype inner / option,vec,set,box child / map value  (id, ident)
    pub inner: Option<(String, String)>,
    pub children: Vec<String>,
    pub builtin: Option<String>,
    pub array_len: Option<usize>,
    pub has_from_str: bool,
    pub has_display: bool,
    pub has_default: bool,
    pub builder: Option<String>,
}

pub fn ts(t: proc_macro2::TokenStream) -> String {
    t.to_string()
}

pub fn type_fact(space: &TypeSpace, ty: &Type) -> TypeFact {
    let mut f = TypeFact {
        name: ty.name(),
        ident: ts(ty.ident()),
        has_from_str: ty.has_impl(TypeSpaceImpl::FromStr),
        has_display: ty.has_impl(TypeSpaceImpl::Display),
        has_default: ty.has_impl(TypeSpaceImpl::Default),
        builder: ty.builder().map(ts),
        ..Default::default()
    };
    let ident_of = |id: &TypeId| -> String {
        space.get_type(id).map(|t| ts(t.ident())).unwrap_or_else(|_| "<invalid id>".into())
    };
    match ty.details() {
        TypeDetails::Struct(s) => {
            f.kind = "struct".into();
            for p in s.properties_info() {
                f.children.push(tid(&p.type_id));
                f.props.push(PropFact {
                    name: p.name.to_string(),
                    required: p.required,
                    type_ident: ident_of(&p.type_id),
                    type_id: tid(&p.type_id),
                });
            }
        }
        TypeDetails::Enum(e) => {
            f.kind = "enum".into();
            for v in e.variants_info() {
                let mut vf = VariantFact {
                    name: v.name.to_string(),
                    ..Default::default()
                };
                match v.details {
                    TypeEnumVariant::Simple => vf.shape = "simple".into(),
                    TypeEnumVariant::Tuple(ids) => {
                        vf.shape = "tuple".into();
                        for id in ids {
                            f.children.push(tid(&id));
                            vf.tuple.push((tid(&id), ident_of(&id)));
                        }
                    }
                    TypeEnumVariant::Struct(props) => {
                        vf.shape = "struct".into();
                        for (n, id) in props {
                            f.children.push(tid(&id));
                            vf.fields.push((n.to_string(), tid(&id), ident_of(&id)));
                        }
                    }
                }
                f.variants.push(vf);
            }
        }
        TypeDetails::Newtype(n) => {
            f.kind = "newtype".into();
            let id = n.inner();
            f.children.push(tid(&id));
            f.inner = Some((tid(&id), ident_of(&id)));
        }
        TypeDetails::Option(id) => {
            f.kind = "option".into();
            f.children.push(tid(&id));
            f.inner = Some((tid(&id), ident_of(&id)));
        }
        TypeDetails::Vec(id) => {
            f.kind = "vec".into();
            f.children.push(tid(&id));
            f.inner = Some((tid(&id), ident_of(&id)));
        }
        TypeDetails::Set(id) => {
            f.kind = "set".into();
            f.children.push(tid(&id));
            f.inner = Some((tid(&id), ident_of(&id)));
        }
        TypeDetails::Box(id) => {
            f.kind = "box".into();
            f.children.push(tid(&id));
            f.inner = Some((tid(&id), ident_of(&id)));
        }
        TypeDetails::Map(k, v) => {
            f.kind = "map".into();
            f.children.push(tid(&k));
            f.children.push(tid(&v));
            f.inner = Some((tid(&v), ident_of(&v)));
        }
        TypeDetails::Tuple(it) => {
            f.kind = "tuple".into();
            for id in it {
                f.children.push(tid(&id));
            }
        }
        TypeDetails::Array(id, n) => {
            f.kind = "array".into();
            f.children.push(tid(&id));
            f.inner = Some((tid(&id), ident_of(&id)));
            f.array_len = Some(n);
        }
        TypeDetails::Builtin(b) => {
            f.kind = "builtin".into();
            f.builtin = Some(b.to_string());
        }
        TypeDetails::Unit => f.kind = "unit".into(),
        TypeDetails::String => f.kind = "string".into(),
    }
    f
}

/// Facts for one id (None if the id does not resolve).
pub fn fact_of(space: &TypeSpace, id: &TypeId) -> Option<TypeFact> {
    let ty = space.get_type(id).ok()?;
    Some(type_fact(space, &ty))
}

/// All types of the space, in iteration order.
pub fn all_facts(space: &TypeSpace) -> Vec<TypeFact> {
    space.iter_types().map(|t| type_fact(space, &t)).collect()
}

#[derive(Serialize, Deserialize, Clone, Debug, Default)]
pub struct Rendered {
    pub tokens: String,
    pub pretty: String,
}

/// Render: to_stream (panic => Err("panic: …")), syn parse (=> Err("parse: …")).
pub fn render(space: &TypeSpace) -> Result<(proc_macro2::TokenStream, syn::File), String> {
    let tokens = guarded(|| space.to_stream()).map_err(|p| format!("render-panic: {p}"))?;
    let file = syn::parse2::<syn::File>(tokens.clone()).map_err(|e| format!("render-parse: {e}"))?;
    Ok((tokens, file))
}

pub fn pretty(file: &syn::File) -> Result<String, String> {
    guarded(|| prettyplease::unparse(file)).map_err(|p| format!("prettyplease panic: {p}"))
}

pub fn canonical(v: &Value) -> String {
    serde_json::to_string(v).unwrap()
}

/// Orchestrator-side hook: a harness panic is an infrastructure failure
/// (exit 2), never a verdict.
pub fn install_panic_hook_verbose() {
    std::panic::set_hook(Box::new(|info| {
        eprintln!("INFRA: harness panic: {info}");
        std::process::exit(2);
    }));
}

/// Child ids of a type with the way each child is held:
/// "value" (by value: struct member, variant payload, newtype inner, option,
/// tuple, array) or "heap" (Box, Vec, Set, Map).
pub fn children_of(ty: &Type) -> Vec<(TypeId, &'static str)> {
    match ty.details() {
        TypeDetails::Struct(s) => s.properties().map(|(_, id)| (id, "value")).collect(),
        TypeDetails::Enum(e) => e
            .variants()
            .flat_map(|(_, v)| match v {
                TypeEnumVariant::Simple => vec![],
                TypeEnumVariant::Tuple(ids) => ids,
                TypeEnumVariant::Struct(ps) => ps.into_iter().map(|(_, id)| id).collect(),
            })
            .map(|id| (id, "value"))
            .collect(),
        TypeDetails::Newtype(n) => vec![(n.inner(), "value")],
        TypeDetails::Option(id) => vec![(id, "value")],
        TypeDetails::Tuple(it) => it.map(|id| (id, "value")).collect(),
        TypeDetails::Array(id, n) => vec![(id, if n > 0 { "value" } else { "heap" })],
        TypeDetails::Box(id) | TypeDetails::Vec(id) | TypeDetails::Set(id) => vec![(id, "heap")],
        TypeDetails::Map(k, v) => vec![(k, "heap"), (v, "heap")],
        _ => vec![],
    }
}
