//! Stage 3: syn-based index of the emitted file.

use quote::ToTokens;
use serde::{Deserialize, Serialize};
use std::collections::BTreeMap;

#[derive(Serialize, Deserialize, Clone, Debug, Default)]
pub struct FieldInfo {
    /// identifier as written (raw prefix stripped); None for tuple fields
    pub ident: Option<String>,
    pub rename: Option<String>,
    pub has_default: bool,
    pub default_fn: Option<String>,
    pub flatten: bool,
    pub skip_if: Option<String>,
    pub ty: String,
    pub is_pub: bool,
}

impl FieldInfo {
    /// effective serde name
    pub fn wire_name(&self) -> Option<String> {
        self.rename.clone().or_else(|| self.ident.clone())
    }
}

#[derive(Serialize, Deserialize, Clone, Debug, Default)]
pub struct VariantInfo {
    pub ident: String,
    pub rename: Option<String>,
    /// unit | tuple | struct
    pub shape: String,
    pub fields: Vec<FieldInfo>,
}

#[derive(Serialize, Deserialize, Clone, Debug, Default)]
pub struct ItemInfo {
    pub name: String,
    /// struct | tuple_struct | unit_struct | enum
    pub kind: String,
    pub is_pub: bool,
    pub derives: Vec<String>,
    pub serde: Vec<String>,
    pub fields: Vec<FieldInfo>,
    pub variants: Vec<VariantInfo>,
    /// emitted more than once in this scope
    pub count: usize,
}

#[derive(Serialize, Deserialize, Clone, Debug, Default)]
pub struct ImplInfo {
    /// trait path with spaces removed, e.g. "::std::str::FromStr" ; "" for inherent
    pub trait_: String,
    pub self_ty: String,
    pub fns: Vec<String>,
}

#[derive(Serialize, Deserialize, Clone, Debug, Default)]
pub struct Index {
    pub items: BTreeMap<String, ItemInfo>,
    pub impls: Vec<ImplInfo>,
    pub builder_items: BTreeMap<String, ItemInfo>,
    pub builder_impls: Vec<ImplInfo>,
    pub default_fns: Vec<String>,
    pub error_items: Vec<String>,
    /// names defined more than once in one module scope (any namespace)
    pub duplicates: Vec<String>,
    pub other_items: Vec<String>,
}

fn nospace(t: impl ToTokens) -> String {
    t.to_token_stream().to_string().replace(' ', "")
}

fn ident_str(i: &syn::Ident) -> String {
    let s = i.to_string();
    s.strip_prefix("r#").map(|x| x.to_string()).unwrap_or(s)
}

fn lit_str(e: &syn::Expr) -> Option<String> {
    if let syn::Expr::Lit(syn::ExprLit { lit: syn::Lit::Str(s), .. }) = e {
        Some(s.value())
    } else {
        None
    }
}

/// (derives, serde words, rename, default?, default_fn, flatten, skip_if)
struct Attrs {
    derives: Vec<String>,
    serde: Vec<String>,
    rename: Option<String>,
    has_default: bool,
    default_fn: Option<String>,
    flatten: bool,
    skip_if: Option<String>,
}

fn attrs(attrs: &[syn::Attribute]) -> Attrs {
    let mut a = Attrs { derives: vec![], serde: vec![], rename: None, has_default: false, default_fn: None, flatten: false, skip_if: None };
    for at in attrs {
        if at.path().is_ident("derive") {
            let _ = at.parse_nested_meta(|m| {
                a.derives.push(nospace(&m.path));
                Ok(())
            });
        } else if at.path().is_ident("serde") {
            let _ = at.parse_nested_meta(|m| {
                let key = nospace(&m.path);
                if m.input.peek(syn::Token![=]) {
                    let v: syn::Expr = m.value()?.parse()?;
                    let val = lit_str(&v).unwrap_or_else(|| nospace(&v));
                    match key.as_str() {
                        "rename" => a.rename = Some(val.clone()),
                        "default" => {
                            a.has_default = true;
                            a.default_fn = Some(val.clone());
                        }
                        "skip_serializing_if" => a.skip_if = Some(val.clone()),
                        _ => {}
                    }
                    a.serde.push(format!("{key}={val}"));
                } else {
                    match key.as_str() {
                        "default" => a.has_default = true,
                        "flatten" => a.flatten = true,
                        _ => {}
                    }
                    a.serde.push(key);
                }
                Ok(())
            });
        }
    }
    a
}

fn field_info(f: &syn::Field) -> FieldInfo {
    let a = attrs(&f.attrs);
    FieldInfo {
        ident: f.ident.as_ref().map(ident_str),
        rename: a.rename,
        has_default: a.has_default,
        default_fn: a.default_fn,
        flatten: a.flatten,
        skip_if: a.skip_if,
        ty: nospace(&f.ty),
        is_pub: matches!(f.vis, syn::Visibility::Public(_)),
    }
}

fn fields_info(fs: &syn::Fields) -> (String, Vec<FieldInfo>) {
    match fs {
        syn::Fields::Named(n) => ("struct".into(), n.named.iter().map(field_info).collect()),
        syn::Fields::Unnamed(u) => ("tuple".into(), u.unnamed.iter().map(field_info).collect()),
        syn::Fields::Unit => ("unit".into(), vec![]),
    }
}

fn item_info(item: &syn::Item) -> Option<ItemInfo> {
    match item {
        syn::Item::Struct(s) => {
            let a = attrs(&s.attrs);
            let (shape, fields) = fields_info(&s.fields);
            Some(ItemInfo {
                name: ident_str(&s.ident),
                kind: match shape.as_str() {
                    "struct" => "struct".into(),
                    "tuple" => "tuple_struct".into(),
                    _ => "unit_struct".into(),
                },
                is_pub: matches!(s.vis, syn::Visibility::Public(_)),
                derives: a.derives,
                serde: a.serde,
                fields,
                variants: vec![],
                count: 1,
            })
        }
        syn::Item::Enum(e) => {
            let a = attrs(&e.attrs);
            let variants = e
                .variants
                .iter()
                .map(|v| {
                    let va = attrs(&v.attrs);
                    let (shape, fields) = fields_info(&v.fields);
                    VariantInfo { ident: ident_str(&v.ident), rename: va.rename, shape, fields }
                })
                .collect();
            Some(ItemInfo {
                name: ident_str(&e.ident),
                kind: "enum".into(),
                is_pub: matches!(e.vis, syn::Visibility::Public(_)),
                derives: a.derives,
                serde: a.serde,
                fields: vec![],
                variants,
                count: 1,
            })
        }
        _ => None,
    }
}

fn impl_info(i: &syn::ItemImpl) -> ImplInfo {
    ImplInfo {
        trait_: i.trait_.as_ref().map(|(_, p, _)| nospace(p)).unwrap_or_default(),
        self_ty: nospace(&i.self_ty),
        fns: i
            .items
            .iter()
            .filter_map(|it| if let syn::ImplItem::Fn(f) = it { Some(f.sig.ident.to_string()) } else { None })
            .collect(),
    }
}

fn scan(items: &[syn::Item], into_items: &mut BTreeMap<String, ItemInfo>, impls: &mut Vec<ImplInfo>, dups: &mut Vec<String>, scope: &str) {
    let mut names: BTreeMap<String, usize> = BTreeMap::new();
    for item in items {
        let n = match item {
            syn::Item::Struct(s) => Some(ident_str(&s.ident)),
            syn::Item::Enum(s) => Some(ident_str(&s.ident)),
            syn::Item::Type(s) => Some(ident_str(&s.ident)),
            syn::Item::Mod(s) => Some(format!("mod {}", ident_str(&s.ident))),
            syn::Item::Fn(s) => Some(format!("fn {}", ident_str(&s.sig.ident))),
            _ => None,
        };
        if let Some(n) = n {
            *names.entry(n).or_default() += 1;
        }
        if let Some(info) = item_info(item) {
            match into_items.get_mut(&info.name) {
                Some(old) => old.count += 1,
                None => {
                    into_items.insert(info.name.clone(), info);
                }
            }
        }
        if let syn::Item::Impl(i) = item {
            impls.push(impl_info(i));
        }
    }
    for (n, c) in names {
        if c > 1 {
            dups.push(format!("{scope}{n}"));
        }
    }
}

pub fn index(file: &syn::File) -> Index {
    let mut ix = Index::default();
    scan(&file.items, &mut ix.items, &mut ix.impls, &mut ix.duplicates, "");
    for item in &file.items {
        match item {
            syn::Item::Mod(m) => {
                let name = ident_str(&m.ident);
                let inner: &[syn::Item] = m.content.as_ref().map(|(_, v)| v.as_slice()).unwrap_or(&[]);
                match name.as_str() {
                    "builder" => scan(inner, &mut ix.builder_items, &mut ix.builder_impls, &mut ix.duplicates, "builder::"),
                    "defaults" => {
                        let mut names: BTreeMap<String, usize> = BTreeMap::new();
                        for it in inner {
                            if let syn::Item::Fn(f) = it {
                                let n = ident_str(&f.sig.ident);
                                *names.entry(n.clone()).or_default() += 1;
                                ix.default_fns.push(n);
                            }
                        }
                        for (n, c) in names {
                            if c > 1 {
                                ix.duplicates.push(format!("defaults::fn {n}"));
                            }
                        }
                    }
                    "error" => {
                        for it in inner {
                            if let syn::Item::Struct(s) = it {
                                ix.error_items.push(ident_str(&s.ident));
                            }
                        }
                    }
                    other => ix.other_items.push(format!("mod {other}")),
                }
            }
            syn::Item::Struct(_) | syn::Item::Enum(_) | syn::Item::Impl(_) => {}
            other => ix.other_items.push(nospace(other).chars().take(60).collect()),
        }
    }
    // duplicate fields / variants inside one item
    for it in ix.items.values() {
        let mut seen = std::collections::BTreeSet::new();
        for f in &it.fields {
            if let Some(i) = &f.ident {
                if !seen.insert(i.clone()) {
                    ix.duplicates.push(format!("{}.{}", it.name, i));
                }
            }
        }
        let mut seen = std::collections::BTreeSet::new();
        for v in &it.variants {
            if !seen.insert(v.ident.clone()) {
                ix.duplicates.push(format!("{}::{}", it.name, v.ident));
            }
        }
    }
    ix
}

impl Index {
    pub fn has_impl(&self, trait_suffix: &str, self_ty: &str) -> bool {
        self.impls.iter().any(|i| i.self_ty == self_ty && (i.trait_ == trait_suffix || i.trait_.ends_with(&format!("::{trait_suffix}"))))
    }
    /// impls of a trait (matched on the path with generic args) for a type
    pub fn impls_for<'a>(&'a self, self_ty: &'a str) -> impl Iterator<Item = &'a ImplInfo> + 'a {
        self.impls.iter().filter(move |i| i.self_ty == self_ty)
    }
}
