//! Worker sub-processes: typify runs in children fed one case per line; a
//! child that dies (stack overflow, abort) or exceeds the watchdog is
//! restarted and the in-flight case is recorded as crash/hang.

use serde_json::Value;
use std::collections::VecDeque;
use std::io::{BufRead, BufReader, Write};
use std::process::{Child, Command, Stdio};
use std::sync::mpsc;
use std::sync::{Arc, Mutex};
use std::time::Duration;

pub const MARK: &str = "@@VRF@@";

pub enum WorkerReply {
    Ok(Value),
    Crash(String),
    Hang,
}

struct Worker {
    child: Child,
    stdin: std::process::ChildStdin,
    rx: mpsc::Receiver<String>,
}

fn spawn_worker(prop: &str) -> Worker {
    let exe = std::env::current_exe().expect("current_exe");
    // spawning can fail transiently when the machine is busy (EAGAIN): retry
    let mut attempt = 0;
    let mut child = loop {
        match Command::new(&exe).arg("worker").arg(prop).stdin(Stdio::piped()).stdout(Stdio::piped()).stderr(Stdio::null()).spawn() {
            Ok(c) => break c,
            Err(e) => {
                attempt += 1;
                if attempt > 50 {
                    eprintln!("INFRA: cannot spawn worker: {e}");
                    std::process::exit(2);
                }
                std::thread::sleep(Duration::from_millis(200));
            }
        }
    };
    let stdin = child.stdin.take().unwrap();
    let stdout = child.stdout.take().unwrap();
    let (tx, rx) = mpsc::channel();
    std::thread::spawn(move || {
        let r = BufReader::new(stdout);
        // typify itself prints to stdout on some paths (merge.rs); only lines
        // carrying the protocol marker are replies
        for line in r.split(b'\n') {
            match line {
                Ok(bytes) => {
                    let l = String::from_utf8_lossy(&bytes);
                    if let Some(rest) = l.strip_prefix(MARK) {
                        if tx.send(rest.to_string()).is_err() {
                            break;
                        }
                    }
                }
                Err(_) => break,
            }
        }
    });
    Worker { child, stdin, rx }
}

impl Worker {
    fn kill(&mut self) {
        let _ = self.child.kill();
        let _ = self.child.wait();
    }
}

pub fn n_workers() -> usize {
    std::env::var("VERIF_JOBS")
        .ok()
        .and_then(|s| s.parse().ok())
        .unwrap_or_else(|| std::thread::available_parallelism().map(|n| n.get()).unwrap_or(8))
}

/// Evaluate every request (a JSON value) in worker processes running
/// `vrf worker <prop>`; the result vector is index aligned with `reqs`.
pub fn map(prop: &str, reqs: Vec<Value>, timeout: Duration) -> Vec<WorkerReply> {
    let n = reqs.len();
    let queue: Arc<Mutex<VecDeque<(usize, Value)>>> =
        Arc::new(Mutex::new(reqs.into_iter().enumerate().collect()));
    let results: Arc<Mutex<Vec<Option<WorkerReply>>>> =
        Arc::new(Mutex::new((0..n).map(|_| None).collect()));
    let nw = n_workers().min(n.max(1));
    let mut handles = vec![];
    for _ in 0..nw {
        let queue = queue.clone();
        let results = results.clone();
        let prop = prop.to_string();
        handles.push(std::thread::spawn(move || {
            let mut w: Option<Worker> = None;
            loop {
                let item = queue.lock().unwrap().pop_front();
                let Some((i, req)) = item else { break };
                if w.is_none() {
                    w = Some(spawn_worker(&prop));
                }
                let wk = w.as_mut().unwrap();
                let line = serde_json::to_string(&req).unwrap();
                let reply = if wk.stdin.write_all(line.as_bytes()).is_err()
                    || wk.stdin.write_all(b"\n").is_err()
                    || wk.stdin.flush().is_err()
                {
                    wk.kill();
                    w = None;
                    WorkerReply::Crash("worker stdin closed".into())
                } else {
                    match wk.rx.recv_timeout(timeout) {
                        Ok(l) => match serde_json::from_str::<Value>(&l) {
                            Ok(v) => WorkerReply::Ok(v),
                            Err(e) => WorkerReply::Crash(format!("bad worker reply: {e}")),
                        },
                        Err(mpsc::RecvTimeoutError::Timeout) => {
                            wk.kill();
                            w = None;
                            WorkerReply::Hang
                        }
                        Err(mpsc::RecvTimeoutError::Disconnected) => {
                            let st = wk.child.wait().map(|s| s.to_string()).unwrap_or_default();
                            w = None;
                            WorkerReply::Crash(format!("worker died: {st}"))
                        }
                    }
                };
                results.lock().unwrap()[i] = Some(reply);
            }
            if let Some(mut wk) = w {
                drop(wk.stdin);
                let _ = wk.child.wait();
            }
        }));
    }
    for h in handles {
        let _ = h.join();
    }
    let mut r = results.lock().unwrap();
    r.drain(..)
        .map(|o| o.unwrap_or(WorkerReply::Crash("no reply".into())))
        .collect()
}

/// The worker side: read requests, answer each with one line. Runs on a
/// thread with a large stack so that deep (but finite) recursion in typify is
/// not mistaken for divergence.
pub fn worker_main(f: impl Fn(Value) -> Value + Send + 'static) {
    crate::ingest::install_panic_hook();
    let h = std::thread::Builder::new()
        .stack_size(512 << 20)
        .spawn(move || {
            let stdin = std::io::stdin();
            let stdout = std::io::stdout();
            for line in stdin.lock().lines() {
                let Ok(line) = line else { break };
                if line.trim().is_empty() {
                    continue;
                }
                let req: Value = match serde_json::from_str(&line) {
                    Ok(v) => v,
                    Err(e) => {
                        let mut o = stdout.lock();
                        let _ = writeln!(o, "\n{}{}", MARK, serde_json::json!({"__bad_request": e.to_string()}));
                        let _ = o.flush();
                        continue;
                    }
                };
                let out = match crate::ingest::guarded(|| f(req)) {
                    Ok(v) => v,
                    Err(p) => serde_json::json!({"__worker_panic": p}),
                };
                let mut o = stdout.lock();
                let _ = writeln!(o, "\n{}{}", MARK, serde_json::to_string(&out).unwrap());
                let _ = o.flush();
            }
        })
        .unwrap();
    let _ = h.join();
}
